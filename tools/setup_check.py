#!/usr/bin/env python3
"""MANIFEST.setup_cmd: nothing to build; verify that the interpreter has what the checks need (offline)."""
import importlib
import os
import sys

missing = []
for mod in ("numpy", "ply", "six", "click", "netCDF4", "packaging"):
    try:
        importlib.import_module(mod)
    except Exception as exc:  # noqa
        missing.append("%s (%s)" % (mod, exc))
if missing:
    print("setup: missing modules: " + ", ".join(missing))
    sys.exit(1)
verif = os.path.dirname(os.path.dirname(os.path.abspath(__file__)))
os.makedirs(os.path.join(verif, "evidence"), exist_ok=True)
os.makedirs(os.path.join(verif, "replays"), exist_ok=True)
print("setup: ok (python %s)" % sys.version.split()[0])
