#!/bin/sh
# Run every registered quick check against /repo and validate MANIFEST + evidence.
cd "$(dirname "$0")/.." || exit 2
rc=0
for p in C01 C02 C09 C11 C12 C13 C14 C17 C18 C19 C20; do
  out=$(./check $p --tier "${1:-quick}" 2>&1); r=$?
  echo "$p rc=$r $(echo "$out" | grep -E '^runs=' | cut -c1-150)"
  echo "$out" | grep -E '^(VIOLATION|HARNESS|KNOWN)' | head -5
  [ $r -ne 0 ] && rc=1
done
python3-vt tools/validate.py | grep -v " valid" 
exit $rc
