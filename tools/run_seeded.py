#!/usr/bin/env python3
"""Confirm the seeded breaking changes under /verif/seeded/<id>/ and run the checks against them.

For each seeded change: a scratch git worktree of /repo HEAD (outside /repo and /verif, removed afterwards)
  1. demo on the unchanged worktree  -> must PASS (exit 0)
  2. git apply patch.diff
  3. the repository's test suite      -> must pass unchanged (66 tests)
  4. demo                              -> must FAIL (exit != 0)
  5. ./check <property> (quick tier) with MPSIM_REPO=<worktree> -> exit 1 + VIOLATION expected
Results go to seeded/<id>/result.json and a table is printed.  /repo itself is never modified.

usage: tools/run_seeded.py [--import /tmp/wt] [ids ...] [--tier quick] [--also C02,C09]
"""
import argparse
import json
import os
import re
import shutil
import subprocess
import sys
import tempfile

VERIF = os.path.dirname(os.path.dirname(os.path.abspath(__file__)))
SEEDED = os.path.join(VERIF, "seeded")
PY = "/venv/bin/python"


def sh(cmd, cwd=None, env=None, timeout=1800):
    p = subprocess.run(cmd, cwd=cwd, env=env, stdout=subprocess.PIPE, stderr=subprocess.STDOUT, timeout=timeout)
    return p.returncode, p.stdout.decode("utf-8", "replace")


def import_from(src):
    for name in sorted(os.listdir(src)):
        m = re.match(r"^(C\d+)\.out$", name)
        if not m:
            continue
        pid = m.group(1)
        d = os.path.join(src, name)
        for i in (1, 2, 3, 4):
            diff = os.path.join(d, "change%d.diff" % i)
            if not os.path.exists(diff):
                continue
            sid = "%s-%s%d" % (pid, os.environ.get("SEED_ROUND", "a"), i)
            out = os.path.join(SEEDED, sid)
            os.makedirs(out, exist_ok=True)
            shutil.copy(diff, os.path.join(out, "patch.diff"))
            shutil.copy(os.path.join(d, "change%d_demo.py" % i), os.path.join(out, "demo.py"))
            if os.path.exists(os.path.join(d, "change%d.md" % i)):
                shutil.copy(os.path.join(d, "change%d.md" % i), os.path.join(out, "notes.md"))
            meta_path = os.path.join(out, "meta.json")
            if not os.path.exists(meta_path):
                json.dump({"id": sid, "property": pid, "origin": "independent sub-agent given only the property text",
                           "needs": "see notes.md"}, open(meta_path, "w"), indent=1)
            print("imported", sid)


def confirm(sid, tier, also, base="HEAD"):
    d = os.path.join(SEEDED, sid)
    meta = json.load(open(os.path.join(d, "meta.json")))
    prop = meta["property"]
    wt = tempfile.mkdtemp(prefix="seedwt-")
    os.rmdir(wt)
    res = {"id": sid, "property": prop}
    try:
        rc, out = sh(["git", "-C", "/repo", "worktree", "add", "--detach", "-f", wt, base])
        if rc:
            raise RuntimeError(out)
        demo = os.path.join(wt, "_seed_demo.py")
        shutil.copy(os.path.join(d, "demo.py"), demo)
        env = dict(os.environ, PYTHONDONTWRITEBYTECODE="1")
        rc, out = sh([PY, "-B", demo], cwd=wt, env=env, timeout=600)
        res["demo_clean_rc"] = rc
        baseline = set()
        if base != "HEAD":
            # the change was written against an older commit that later repairs have moved away from: what the check says
            # about that commit without the change is the baseline, only signatures beyond it count
            res["base"] = base
            rc, out = sh([os.path.join(VERIF, "check"), prop, "--tier", tier], cwd=VERIF, env=dict(env, MPSIM_REPO=wt), timeout=3600)
            baseline = set(re.findall(r"^violation signature: (.*?) \(\d+ runs\)", out, re.M))
            res["baseline_signatures"] = sorted(baseline)
        rc, out = sh(["git", "apply", os.path.join(d, "patch.diff")], cwd=wt)
        res["applies"] = rc == 0
        if rc:
            res["apply_error"] = out[-500:]
            return res
        rc, out = sh([PY, "-m", "pytest", "-q", "-p", "no:cacheprovider", "-x"], cwd=wt, env=env, timeout=1200)
        m = re.search(r"(\d+) passed", out)
        res["tests_rc"] = rc
        res["tests_passed"] = int(m.group(1)) if m else 0
        rc, out = sh([PY, "-B", demo], cwd=wt, env=env, timeout=600)
        res["demo_patched_rc"] = rc
        res["demo_patched_tail"] = out[-400:]
        os.remove(demo)
        res["checks"] = {}
        for p in [prop] + [x for x in also if x != prop]:
            env2 = dict(env, MPSIM_REPO=wt)
            rc, out = sh([os.path.join(VERIF, "check"), p, "--tier", tier], cwd=VERIF, env=env2, timeout=3600)
            sigs = re.findall(r"^violation signature: (.*?) \(\d+ runs\)", out, re.M)
            counts = [int(x) for x in re.findall(r"^violation signature: .*? \((\d+) runs\)", out, re.M)]
            m = re.search(r"^runs=(\d+)", out, re.M)
            if baseline:
                keep = [i for i, s_ in enumerate(sigs) if s_ not in baseline]
                sigs = [sigs[i] for i in keep]
                counts = [counts[i] for i in keep if i < len(counts)]
                rc = 1 if sigs else 0
            res["checks"][p] = {"rc": rc, "violations": len(re.findall(r"^VIOLATION ", out, re.M)), "signatures": sigs[:12],
                                "runs": int(m.group(1)) if m else None, "max_runs_per_signature": max(counts) if counts else 0,
                                "harness": len(re.findall(r"^HARNESS-ERROR", out, re.M))}
        # the evidence files were rewritten against the mutant: they are regenerated by the caller afterwards
    finally:
        sh(["git", "-C", "/repo", "worktree", "remove", "--force", wt])
        shutil.rmtree(wt, ignore_errors=True)
        sh(["git", "-C", "/repo", "worktree", "prune"])
    res["confirmed"] = bool(res.get("demo_clean_rc") == 0 and res.get("applies") and res.get("tests_rc") == 0
                            and res.get("tests_passed", 0) >= 66 and res.get("demo_patched_rc", 0) != 0)
    res["caught_by_own_check"] = res.get("checks", {}).get(prop, {}).get("rc") == 1
    json.dump(res, open(os.path.join(d, "result.json"), "w"), indent=1)
    return res


def main():
    ap = argparse.ArgumentParser()
    ap.add_argument("ids", nargs="*")
    ap.add_argument("--import", dest="imp")
    ap.add_argument("--tier", default="quick")
    ap.add_argument("--also", default="")
    ap.add_argument("--base", default="HEAD", help="commit the changes were written against (default: /repo HEAD)")
    args = ap.parse_args()
    if args.imp:
        import_from(args.imp)
    ids = args.ids or sorted(x for x in os.listdir(SEEDED) if os.path.isdir(os.path.join(SEEDED, x)))
    also = [x for x in args.also.split(",") if x]
    rows = []
    for sid in ids:
        r = confirm(sid, args.tier, also, args.base)
        rows.append(r)
        ck = r.get("checks", {})
        print("%-10s confirmed=%-5s tests=%s demo(clean/patched)=%s/%s  checks: %s" % (
            sid, r.get("confirmed"), r.get("tests_passed"), r.get("demo_clean_rc"), r.get("demo_patched_rc"),
            "  ".join("%s rc=%s sigs=%d hit=%s/%s" % (p, c["rc"], len(c["signatures"]), c.get("max_runs_per_signature"),
                                                        c.get("runs")) for p, c in ck.items())))
        sys.stdout.flush()
    missed = [r["id"] for r in rows if r.get("confirmed") and not r.get("caught_by_own_check")]
    print("confirmed: %d/%d, caught by their property's check: %d, missed: %s" % (
        sum(1 for r in rows if r.get("confirmed")), len(rows),
        sum(1 for r in rows if r.get("confirmed") and r.get("caught_by_own_check")), missed))


if __name__ == "__main__":
    main()
