#!/usr/bin/env python3
"""Regenerate /verif/MANIFEST.json from the table below (keeps it schema-valid at all times)."""
import json
import os

VERIF = os.path.dirname(os.path.dirname(os.path.abspath(__file__)))

PURE = "pure function of its input (arrays / text / program value): no schedule, history, fault or I/O timing can " \
       "change its truth, so deterministic simulation would only be input generation in simulator vocabulary " \
       "(DESIGN.md section 6)"

NOT_APPLICABLE = {
    "C03": "missing data stays missing - cell-wise " + PURE,
    "C04": "fuzzy results in [-1,+1] - " + PURE,
    "C05": "shape preserved / cells independent - " + PURE,
    "C06": "fuzzy operators compute their definitions - " + PURE,
    "C07": "arithmetic commands; 'order' is the order of list values, an input - " + PURE,
    "C08": "conversions compute their mappings - " + PURE,
    "C10": "parsing delivers what was written - pure function of the text; its only stateful facet (parser reuse) "
           "is exercised, unclaimed, under C11 (DESIGN.md section 6)",
    "C15": "serialise/load round trip - pure function of the program value; neither route introduces order, fault or "
           "timing (DESIGN.md section 6)",
    "C16": "EEMS 2.0 translation - pure function of the text plus a static name table (DESIGN.md section 6)",
}

# property -> (engine, category, technique, level text, level note, design ref)
CHECKS = {
    "C01": ("evalsim", "exploration",
            "deterministic simulation: seeded search over evaluation schedules (textual order x pull plans) and client "
            "histories of the real evaluator, with injected execute faults; invariants on one global event sequence",
            "Seeded exploration of dependency graphs x textual orders x per-command pull orders x client histories "
            "(run / result / run-one / metadata, before and after the first run) against exactly-once, "
            "finished-before-use, result-identity and nothing-after-completion invariants checked on every event; a "
            "separate fault configuration injects exceptions inside execute and checks that no command that returned "
            "is ever re-entered. Sampling, not proof.",
            "Probe commands' execute bodies are simulator stubs (they read their references in the order, and as often, "
            "as the scenario's pull plan says); a second flavour runs real EEMS commands on a simulated disk (data file "
            "rewritten or delivered late by the environment). Also varied: operations issued from another thread, DEBUG "
            "logging, API-only programs (object references to stand-alone commands, free-form names). Everything else "
            "is mpilot's real code from the current working tree. numpy/ply/six trusted.",
            "DESIGN.md 5/C01"),
    "C14": ("evalsim", "exploration",
            "deterministic simulation: seeded search over cyclic reference graphs x reference kinds x textual orders x "
            "pull plans on the real evaluator; outcome and bounded-progress (nesting / entry count) invariants",
            "Seeded exploration of digraphs with at least one cycle (self-loop, 2-cycle, k-cycle, several cycles, tails "
            "leading in and out, separate acyclic components; direct, list and nested references; every textual order "
            "and construction route). run() must raise the recursive-model error; it must not return, raise anything "
            "else, show a RecursionError anywhere in the exception chain, or nest execute deeper than 2n+5 / enter "
            "execute more than 4n+8 times (bounded progress). Sampling; the <=5-node space is small but the check "
            "does not claim to enumerate it.",
            "Probe execute bodies are simulator stubs; only Program.run() is judged (direct result reads on a cyclic "
            "program are recorded, not judged).",
            "DESIGN.md 5/C14"),
    "C02": ("modelsim", "exploration",
            "deterministic simulation: each generated well-typed EEMS model is run through the real parser/loader/"
            "evaluator/libraries on a simulated disk under several seeded evaluation schedules (textual permutations, "
            "client pull histories, extra consumers, metadata) and refined against an exact-arithmetic reference "
            "interpreter, plus bit-for-bit comparison between schedules",
            "Seeded exploration. For every model (typed random DAG over all 32 data commands; float/integer columns; "
            "missing cells) the mask of every result must equal the reference mask exactly and the values agree within "
            "1e-9 relative, under every sampled schedule; results of different schedules of one model must be "
            "bit-identical. The in-family claim is order/sharing/metadata/history independence; breadth of tables and "
            "parameters is only sampled.",
            "Reference semantics per DESIGN.md Appendix A (MeanToMid family: regression oracle). Ill-conditioned and "
            "boundary cells are excluded and counted. File system is SimFS. numpy/csv/ply trusted.",
            "DESIGN.md 5/C02"),
    "C12": ("modelsim", "fault_enumeration",
            "deterministic simulation with located fault injection: one model fault per run from a stratified "
            "command x parameter x wrong-kind matrix at a seeded position/order, through the real library and CLI "
            "routes on a simulated disk; acceptance predicate from a reference declaration table; event-trace ordering "
            "oracle (no execute, no write-open, no stdout, no file change before the rejection)",
            "Fault enumeration: run i takes matrix cell i mod 875 (every built-in command x {unknown command, duplicate "
            "result, each required parameter removed, undeclared parameter, parameter given twice, every wrong value "
            "kind per parameter kind, producer of the wrong output kind, fuzzy/non-fuzzy swap}, NetCDF and plug-in "
            "cells); the quick tier visits every cell ~17 times, the thorough tier ~390 times (falsy wrong values 0 and "" for key/value parameters included), with seeded models, positions and textual orders. Each rejection must be the "
            "documented error naming the offender and must precede every side effect on the event trace; unfaulted "
            "twins must be accepted.",
            "Declaration table written from docs + statement is the acceptance oracle; SimFS stands in for the disk; "
            "CLI run in-process through click with SystemExit captured.",
            "DESIGN.md 5/C12"),
    "C13": ("modelsim", "fault_enumeration",
            "deterministic simulation with fault injection (swarm): command-text corruption, CSV content faults, kind "
            "confusion matrix, OS errors at every SimFS call, an environment actor racing the run in its TOCTOU "
            "windows, exceptions inside execute; exception-type lattice at the from_source()/run() boundary and CLI "
            "exit status / stderr oracle",
            "Fault enumeration over a stratified extended kind-confusion matrix (1215 cells) combined with seeded fault "
            "sequences of 0-2 faults from 6 families (70 fault kinds, each counted when it actually fired). Outcome of "
            "loading+running must be success, SyntaxError or an MPilotError; for MPilotError outcomes the in-process "
            "CLI must exit non-zero with the problem/solution text on stderr and no traceback of its own.",
            "Success outcomes are not compared with a reference here. Model-file read faults precede parsing and are "
            "not judged. SimFS, actor and exec-fault wrappers are simulator stubs.",
            "DESIGN.md 5/C13"),
    "C11": ("histsim_parse", "exploration",
            "deterministic simulation of process histories: seeded sequences of parse / failed-parse / load / CLI "
            "operations on live Parser objects and on the simulated disk, over documents whose true line numbers are "
            "recorded by the renderer; located model faults (load-time, validation, execute-time) whose line is known "
            "by construction",
            "Seeded exploration of histories (what the same Parser object or process parsed before, including parses "
            "that failed half-way) x layouts (blank/comment lines, trailing comments, multi-line arguments and lists, "
            "LF/CRLF) x located faults. Every command, argument and list element of every parse tree must carry its "
            "true line; every load-time/validation error must carry a line of the offending command or argument; "
            "execute-time errors none or a line of the failing command; the CLI's --> line must be the text of such a "
            "line.",
            "Renderer ledger is the line truth (head `R = Cmd(` and `name =` on one line each; no CR-only endings). "
            "Parse-tree content is C10's business and only recorded. SimFS for the CLI.",
            "DESIGN.md 5/C11"),
    "C19": ("histsim_registry", "exploration",
            "deterministic simulation of process histories: each seeded history (imports by third parties, late class "
            "definitions, Program constructions, loads, built-in configurations) runs in a fresh forked process with "
            "the process-global registry's iteration order under a seeded permutation; refinement against a reference "
            "registry model",
            "Seeded exploration of histories over generated library universes with prefix-related names. After every "
            "Program construction / load the name -> defining-module map must equal the reference map (a command "
            "belongs to requested library L iff its module is L or starts with 'L.'), a name defined twice among the "
            "requested libraries must be rejected at construction with an MPilotError, and the same request must get "
            "the same answer at every point of the history.",
            "Generated libraries' execute bodies are stubs returning their defining module; registry set replaced by a "
            "seeded-order subclass before any library loads. One fork per history from a worker that never imports "
            "mpilot.",
            "DESIGN.md 5/C19"),
    "C20": ("histsim_params", "exploration",
            "deterministic simulation of call histories: seeded sequences of clean / clean-again / clean-the-cleaned / "
            "program-run / file-system-mutation operations on live parameter objects inside a real program on a "
            "simulated disk; reference type table, repeat-equality, idempotence, deep-snapshot purity and "
            "zero-execute / zero-write event-trace conditions",
            "Seeded exploration of histories over every parameter class and configuration (nested lists to depth 3) and "
            "raw values of every kind the parser or API delivers, with absolute / relative / no working directory. "
            "Each clean must return the documented typed value or raise a parameter error, equal raw values must clean "
            "to equal values under an equal file-system/program state, cleaned values must clean to themselves, and "
            "no clean may alter its argument or the program, execute a command or write a file.",
            "The documented type table is a reference function in the engine; forms the documentation does not settle "
            "are judged only on exception class and purity. SimFS stands in for the disk.",
            "DESIGN.md 5/C20"),
    "C17": ("iosim_csv", "exploration",
            "deterministic simulation of a storage history: write through the real CSV writer to a simulated disk, an "
            "environment actor corrupts a cell / header / inserts blank lines at a position it chose, then the real "
            "reader reads column by column; in-memory table model with bit-exact comparison and the physical line of "
            "the injected corruption",
            "Seeded exploration of write -> (corrupt) -> read histories. Written bytes must have the header in listed "
            "order and one record per cell; every intact column must read back bit-identical with the requested "
            "element type and exactly the cells equal to the missing value masked, unaffected by garbage elsewhere; a "
            "corrupted cell must be reported as invalid data naming the column and the physical file line; a removed "
            "header must be reported by name. The in-family part is the history and error location; which doubles and "
            "header names are tried is sampled.",
            "SimFS is the disk; producers are injected finished commands; programs are built through the API.",
            "DESIGN.md 5/C17"),
    "C09": ("immutsim", "exploration",
            "deterministic simulation of consumer histories over shared memoised state: seeded sequences of consumer "
            "executions (all built-in commands, single-input forms, repeated producers, consumers of consumers, "
            "writers on a simulated disk) with a snapshot invariant evaluated after every execute exit, normal or "
            "raising",
            "Seeded exploration of histories of 5-40 consumer executions over 1-4 injected producer results (float/int, "
            "mask kinds, rank 1-3, fuzzy or not). After every execute exit each result produced so far must still have "
            "the shape, element type, missing cells and non-missing values it had when it was produced.",
            "The payload beneath missing cells is excluded (the clamp rewrites it). Producers are injected finished "
            "commands; SimFS is the disk.",
            "DESIGN.md 5/C09"),
    "C18": ("iosim_netcdf", "exploration",
            "deterministic (seeded, replayable) write -> read histories through the real netCDF4/HDF5 library on real "
            "scratch files over the configuration matrix of optional read parameters; in-memory dataset model. No "
            "schedule and only whole-file conditions exist here: the in-family part is thin and stated as such",
            "Seeded exploration of template shapes/coordinates x sets of results written together (mask kinds, write "
            "order) x read parameter combinations. Shape, element kind, values, missing = union of written masks, "
            "template dimension variables/attributes byte-equal, float by default, missing value, positive and fuzzy "
            "checks, missing variable reported.",
            "Real file system (per-run scratch directory), not simulated. Implemented parameter name MissingValue is "
            "used (documentation says MissingVal).",
            "DESIGN.md 5/C18"),
}

PENDING = {}


def main():
    props = [json.loads(l) for l in open(os.path.join(VERIF, "properties.jsonl"))]
    ids = [p["id"] for p in props]
    checks = []
    for pid in ids:
        if pid not in CHECKS:
            continue
        eng, cat, tech, text, note, ref = CHECKS[pid]
        checks.append({
            "property_id": pid,
            "quick_cmd": "./check %s --tier quick" % pid,
            "thorough_cmd": "./check %s --tier thorough" % pid,
            "evidence_file": "/verif/evidence/%s.json" % pid,
            "replay_cmd_template": "./check --replay {path}",
            "engine": eng,
            "level_claimed": {"category": cat, "text": text, "design_ref": ref},
            "level_note": note,
            "technique": tech,
        })
    na = []
    for pid in ids:
        if pid in CHECKS:
            continue
        if pid in NOT_APPLICABLE:
            na.append({"property_id": pid, "reason": NOT_APPLICABLE[pid]})
        else:
            na.append({"property_id": pid, "reason": PENDING.get(
                pid, "not claimed yet: the simulation check for this property is still under construction "
                     "(planned in DESIGN.md section 5)")})
    engines = {}
    for pid, c in CHECKS.items():
        engines.setdefault(c[0], []).append(pid)
    manifest = {
        "version": 1,
        "setup_cmd": "/venv/bin/python -B /verif/tools/setup_check.py",
        "hooks": {
            "guard": "MPILOT_VERIF",
            "enable": "no hook exists: every seam (execute wrappers, builtins.open / os.path.exists, std streams, "
                      "registry set, probe libraries) is installed from outside the package by /verif/mpsim at run "
                      "time; the guard name is reserved and unused, /repo contains no instrumentation",
            "baseline_off_cmd": "cd /repo && /venv/bin/python -m pytest -ra -q -p no:cacheprovider --timeout=900 "
                                "--continue-on-collection-errors",
            "source_commits": [],
            "add_only": True,
        },
        "engines": [
            {"name": name, "path": "/verif/mpsim/engines/%s.py" % name, "serves_properties": sorted(pids),
             "kind_free_text": "deterministic simulation with fault injection (seeded scheduler over the real code)"}
            for name, pids in sorted(engines.items())
        ],
        "checks": checks,
        "not_applicable": na,
        "notes": "All checks: ./check <id> --tier quick|thorough (VERIF_SEED / VERIF_TIER honoured). Exit 0 held, "
                 "1 VIOLATION with replay file, 2 harness error (nothing claimed). Replay: ./check --replay <file>. "
                 "Known findings: /verif/known_findings.jsonl. See DESIGN.md.",
    }
    with open(os.path.join(VERIF, "MANIFEST.json"), "w") as f:
        json.dump(manifest, f, indent=1)
        f.write("\n")
    print("MANIFEST.json: %d checks, %d not applicable/pending" % (len(checks), len(na)))


if __name__ == "__main__":
    main()
