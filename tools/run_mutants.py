#!/usr/bin/env python3
"""Sensitivity catalogue: the breaking changes listed under "B" in DESIGN.md section 5, as textual edits.

Each mutant is applied to a scratch copy of /repo/mpilot (never to /repo), the 66 tests are run against it (a mutant
that the suite already catches is marked and skipped), and the property's quick check is run with MPSIM_REPO=<copy>.
usage: tools/run_mutants.py [ids...]
"""
import json
import os
import re
import shutil
import subprocess
import sys
import tempfile

VERIF = os.path.dirname(os.path.dirname(os.path.abspath(__file__)))
PY = "/venv/bin/python"

M = []


def mut(mid, prop, path, old, new, count=1):
    M.append({"id": mid, "prop": prop, "path": path, "old": old, "new": new, "count": count})


# ---- C01 -----------------------------------------------------------------------------------------------------
mut("C01-m1", "C01", "mpilot/commands.py", "    @property\n    def result(self):\n        if not self.is_finished:\n            self.run()\n",
    "    @property\n    def result(self):\n        self.run()\n")
mut("C01-m2", "C01", "mpilot/commands.py", "            finally:\n                self.is_running = False\n\n            self.is_finished = True\n",
    "            finally:\n                self.is_running = False\n")
mut("C01-m3", "C01", "mpilot/commands.py", "            self.is_running = True\n\n            try:\n",
    "            self.is_running = True\n            self.is_finished = True\n\n            try:\n")
mut("C01-m4", "C01", "mpilot/program.py", "        for command in self.commands.values():\n            if not command.is_finished:\n                command.run()\n",
    "        for command in self.commands.values():\n            command.is_finished = False\n            command.run()\n")
mut("C01-m5", "C01", "mpilot/params.py", "            try:\n                value = program.commands[value]\n",
    "            try:\n                import copy as _c\n                value = _c.copy(program.commands[value])\n")
# ---- C14 -----------------------------------------------------------------------------------------------------
mut("C14-m1", "C14", "mpilot/commands.py", "            if self.is_running:\n                raise RecursiveModelStructure(self.lineno)\n\n", "")
mut("C14-m2", "C14", "mpilot/program.py", "        for command in self.commands.values():\n            if not command.is_finished:\n                command.run()\n", "")
mut("C14-m3", "C14", "mpilot/commands.py", "            if self.is_running:\n                raise RecursiveModelStructure(self.lineno)\n",
    "            if self.is_running and any(a.value == self.result_name for a in self.arguments):\n                raise RecursiveModelStructure(self.lineno)\n")
mut("C14-m4", "C14", "mpilot/commands.py", "                raise RecursiveModelStructure(self.lineno)\n", "                raise MPilotError('recursive')\n")
# ---- C02 -----------------------------------------------------------------------------------------------------
mut("C02-m1", "C02", "mpilot/libraries/eems/fuzzy.py", "reduce(lambda x, y: numpy.ma.maximum(x, y), arrays[1:], arrays[0])",
    "reduce(lambda x, y: numpy.ma.minimum(x, y), arrays[1:], arrays[0])")
mut("C02-m2", "C02", "mpilot/libraries/eems/fuzzy.py", "numpy.ma.mean(stacked_arr[-number_to_consider:], axis=0)",
    "numpy.ma.mean(stacked_arr[-number_to_consider - 1:], axis=0)")
mut("C02-m3", "C02", "mpilot/libraries/eems/fuzzy.py", "        result /= sum(weights)\n\n        return insure_fuzzy(result, FUZZY_MIN, FUZZY_MAX)",
    "        result /= sum(weights)\n\n        return result")
mut("C02-m4", "C02", "mpilot/libraries/eems/basic.py", "        result.mask = arr.mask.copy()\n\n        return result\n\n\nclass NormalizeMeanToMid",
    "        return result\n\n\nclass NormalizeMeanToMid")
mut("C02-m5", "C02", "mpilot/program.py", "        for command in (\n            command\n            for command in self.commands.values()\n            if not dependents.get(command.result_name)\n        ):\n            command.run()\n",
    "        for command in self.commands.values():\n            command._result = command.execute(**command.validate_params({arg.name: arg.value for arg in command.arguments}))\n            command.is_finished = True\n")
mut("C02-m6", "C02", "mpilot/libraries/eems/basic.py", "        return a - b\n", "        a -= b\n        return a\n")
mut("C02-m7", "C02", "mpilot/libraries/eems/fuzzy.py", "        x1 = float(true_threshold)\n        x2 = float(false_threshold)\n        y1 = FUZZY_MAX",
    "        x1 = float(false_threshold)\n        x2 = float(true_threshold)\n        y1 = FUZZY_MAX")
# ---- C09 -----------------------------------------------------------------------------------------------------
mut("C09-m1", "C09", "mpilot/libraries/eems/fuzzy.py", "        result = -arr\n", "        result = numpy.negative(arr, out=arr)\n")
mut("C09-m2", "C09", "mpilot/libraries/eems/basic.py", "        result = arrays[0].copy()\n\n        for arr in arrays[1:]:\n            result = result + arr",
    "        result = arrays[0]\n\n        for arr in arrays[1:]:\n            result += arr")
mut("C09-m3", "C09", "mpilot/libraries/eems/fuzzy.py", "        result = arr - x1\n        result *= y2 - y1\n        result /= x2 - x1\n        result += y1\n\n        return insure_fuzzy(result, FUZZY_MIN, FUZZY_MAX)",
    "        insure_fuzzy(arr, -1e6, 1e6)\n        result = arr - x1\n        result *= y2 - y1\n        result /= x2 - x1\n        result += y1\n\n        return insure_fuzzy(result, FUZZY_MIN, FUZZY_MAX)")
mut("C09-m4", "C09", "mpilot/libraries/eems/basic.py", "        return (arr - arr_min) * (start - end) / (arr_min - arr_max) + start",
    "        arr -= arr_min\n        return arr * (start - end) / (arr_min - arr_max) + start")
# ---- C11 -----------------------------------------------------------------------------------------------------
mut("C11-m1", "C11", "mpilot/parser/parser.py", 't.lexer.lineno += len(t.value.replace("\\r\\n", "\\n"))', "t.lexer.lineno += 1")
mut("C11-m2", "C11", "mpilot/parser/parser.py", "p[0] = CommandNode(p[1], p[3], p[4], p.lineno(3))", "p[0] = CommandNode(p[1], p[3], p[4], p.lineno(4))")
mut("C11-m3", "C11", "mpilot/parser/parser.py", "p[0] = ArgumentNode(p[1], p[3], p.lineno(1))", "p[0] = ArgumentNode(p[1], p[3], p.lineno(3))")
mut("C11-m4", "C11", "mpilot/program.py", "                        argument_node.value.value,\n                        argument_node.lineno,\n",
    "                        argument_node.value.value,\n                        node.lineno,\n")
mut("C11-m5", "C11", "mpilot/cli/mpilot.py", "            idx = ex.lineno - 1\n", "            idx = ex.lineno\n")
mut("C11-m6", "C11", "mpilot/parser/parser.py", "        self.lexer.lineno = 1  # the lexer (and its line counter) is reused between calls\n", "")
# ---- C12 -----------------------------------------------------------------------------------------------------
mut("C12-m1", "C12", "mpilot/program.py", "                    value = command.inputs[argument.name].clean(\n                        argument.value, self, lineno=argument.lineno\n                    )\n",
    "                    value = argument.value\n")
mut("C12-m2", "C12", "mpilot/libraries/eems/fuzzy.py", '        "Threshold": params.NumberParameter(),\n', '        "Threshold": params.NumberParameter(required=False),\n')
mut("C12-m3", "C12", "mpilot/params.py", "        if self.is_fuzzy is False and getattr(value, \"is_fuzzy\", False):\n            raise ResultIsFuzzy(value.result_name, lineno)\n", "")
mut("C12-m4", "C12", "mpilot/program.py", "            if name not in command_cls.inputs and not command_cls.allow_extra_inputs:", "            if False:")
mut("C12-m5", "C12", "mpilot/params.py", "            if not is_valid:\n                raise ResultTypeNotValid(value.result_name, lineno)\n", "")
mut("C12-m6", "C12", "mpilot/program.py", "        if result_name in self.commands:\n            raise DuplicateResult(result_name, lineno=lineno)\n", "")
# ---- C13 -----------------------------------------------------------------------------------------------------
mut("C13-m1", "C13", "mpilot/commands.py", "            except Exception as exc:\n                if isinstance(exc, MPilotError):\n                    raise\n                raise_from(UnexpectedError(exc, format_exc(), self.lineno), exc)\n",
    "            except ValueError as exc:\n                raise_from(UnexpectedError(exc, format_exc(), self.lineno), exc)\n")
mut("C13-m2", "C13", "mpilot/params.py", "            except (ValueError, TypeError):\n                raise ParameterNotValid(value, \"Number\", lineno)\n",
    "            except TypeError:\n                raise ParameterNotValid(value, \"Number\", lineno)\n")
mut("C13-m3", "C13", "mpilot/cli/mpilot.py", "    except MPilotError as ex:\n", "    except ProgramError as ex:\n")
mut("C13-m4", "C13", "mpilot/cli/mpilot.py", "            sys.stderr.write(\"\\n\")\n\n        sys.exit(-1)\n", "            sys.stderr.write(\"\\n\")\n\n        sys.exit(0)\n")
mut("C13-m5", "C13", "mpilot/cli/mpilot.py", "        sys.stderr.write(\n            \"\\n\".join(\n                (\n                    \"ERROR: There was a problem running the MPilot command file.\",",
    "        sys.stdout.write(\n            \"\\n\".join(\n                (\n                    \"ERROR: There was a problem running the MPilot command file.\",")
# ---- C17 -----------------------------------------------------------------------------------------------------
mut("C17-m1", "C17", "mpilot/libraries/eems/csv/io.py", "field_name, i + 2\n", "field_name, i + 1\n")
mut("C17-m2", "C17", "mpilot/libraries/eems/csv/io.py", "mask = numpy.ma.where(data == data_type(fill_value), True, False)", "mask = numpy.ma.where(data <= data_type(fill_value), True, False)")
mut("C17-m3", "C17", "mpilot/libraries/eems/csv/io.py", "writer.writerow([c.result_name for c in commands])", "writer.writerow(sorted(c.result_name for c in commands))")
mut("C17-m4", "C17", "mpilot/libraries/eems/csv/io.py", "writer.writerows(out_arr[i, :] for i in range(out_arr.shape[0]))", "writer.writerows(['%g' % v for v in out_arr[i, :]] for i in range(out_arr.shape[0]))")
mut("C17-m5", "C17", "mpilot/libraries/eems/csv/io.py", "values.append(float(row[idx]))", "values.append(float(numpy.float32(row[idx])))")
mut("C17-m6", "C17", "mpilot/libraries/eems/csv/io.py", "idx = headers.index(field_name)\n", "idx = headers.index(field_name) - 1\n")
# ---- C18 -----------------------------------------------------------------------------------------------------
mut("C18-m1", "C18", "mpilot/libraries/eems/netcdf/io.py", "            for arr in arrays[1:]:\n                mask |= numpy.ma.getmaskarray(arr)\n", "")
mut("C18-m2", "C18", "mpilot/libraries/eems/netcdf/io.py", "                    out_dimension_variable[:] = in_dimension_variable[:]\n", "")
mut("C18-m3", "C18", "mpilot/libraries/eems/netcdf/io.py", "            data = numpy.rint(data, out=data)  # round in-place\n", "            pass\n")
mut("C18-m4", "C18", "mpilot/libraries/eems/netcdf/io.py", "and data.min() < 0:", "and data.min() <= 0:")
mut("C18-m5", "C18", "mpilot/libraries/eems/netcdf/io.py", "data_type = kwargs.get(\"DataType\", numpy.float64)", "data_type = kwargs.get(\"DataType\", numpy.float32)")
# ---- C19 -----------------------------------------------------------------------------------------------------
mut("C19-m1", "C19", "mpilot/program.py", "                info.module == lib or info.module.startswith(lib + \".\")\n", "                lib in info.module\n")
mut("C19-m2", "C19", "mpilot/program.py", "        if duplicates:\n", "        if False:\n")
mut("C19-m3", "C19", "mpilot/commands.py", "        if not any(\n            info.module == new_class.__module__\n            and getattr(info.command, \"name\", info.command.__name__) == command_name\n            for info in mcs._commands\n        ):\n            mcs._commands.add", "        if True:\n            mcs._commands.add")
# ---- C20 -----------------------------------------------------------------------------------------------------
mut("C20-m1", "C20", "mpilot/params.py", "        try:\n            return int(value)\n", "        try:\n            return float(int(value))\n")
mut("C20-m2", "C20", "mpilot/params.py", "        if not os.path.isabs(value):\n            if program.working_dir is None:\n                raise InvalidRelativePath(value, lineno)\n            value = os.path.join(program.working_dir, value)\n",
    "        if program.working_dir is None and not os.path.isabs(value):\n            raise InvalidRelativePath(value, lineno)\n        if program.working_dir is not None:\n            value = os.path.join(program.working_dir, value.lstrip('/'))\n")
mut("C20-m3", "C20", "mpilot/params.py", "        if value.is_finished:\n            self.output_type.clean(value.result, program, lineno)\n            return value\n",
    "        self.output_type.clean(value.result, program, lineno)\n        if value.is_finished:\n            return value\n")
mut("C20-m4", "C20", "mpilot/params.py", "            if value.lower() == \"true\":\n                return True\n", "            if value == \"true\":\n                return True\n")


def sh(cmd, cwd=None, env=None, timeout=3600):
    p = subprocess.run(cmd, cwd=cwd, env=env, stdout=subprocess.PIPE, stderr=subprocess.STDOUT, timeout=timeout)
    return p.returncode, p.stdout.decode("utf-8", "replace")


def main():
    want = set(sys.argv[1:])
    rows = []
    for m in M:
        if want and m["id"] not in want and m["prop"] not in want:
            continue
        root = tempfile.mkdtemp(prefix="mutant-")
        try:
            shutil.copytree("/repo/mpilot", os.path.join(root, "mpilot"), ignore=shutil.ignore_patterns("__pycache__"))
            shutil.copytree("/repo/tests", os.path.join(root, "tests"), ignore=shutil.ignore_patterns("__pycache__"))
            path = os.path.join(root, m["path"])
            src = open(path).read()
            if src.count(m["old"]) < 1:
                rows.append((m["id"], "PATCH-DOES-NOT-APPLY", "", ""))
                print("%-8s patch does not apply" % m["id"])
                continue
            open(path, "w").write(src.replace(m["old"], m["new"], m["count"]))
            env = dict(os.environ, PYTHONDONTWRITEBYTECODE="1")
            rc, out = sh([PY, "-m", "pytest", "-q", "-p", "no:cacheprovider", "-x"], cwd=root, env=env)
            tests_ok = rc == 0
            rc, out = sh([os.path.join(VERIF, "check"), m["prop"], "--tier", "quick"], cwd=VERIF, env=dict(env, MPSIM_REPO=root))
            sigs = re.findall(r"^violation signature: (.*?) \(\d+ runs\)", out, re.M)
            rows.append((m["id"], "suite-passes" if tests_ok else "suite-FAILS", rc, sigs[:2]))
            print("%-8s %-12s check rc=%s %s" % (m["id"], "suite-passes" if tests_ok else "suite-FAILS", rc, sigs[:2]))
            sys.stdout.flush()
        finally:
            shutil.rmtree(root, ignore_errors=True)
    missed = [r[0] for r in rows if r[2] != 1 and r[1] != "PATCH-DOES-NOT-APPLY"]
    print("mutants: %d, caught: %d, missed: %s, not applicable: %s" % (
        len(rows), sum(1 for r in rows if r[2] == 1), missed, [r[0] for r in rows if r[1] == "PATCH-DOES-NOT-APPLY"]))
    json.dump([{"id": r[0], "suite": r[1], "check_rc": r[2], "signatures": r[3]} for r in rows],
              open(os.path.join(VERIF, "selftest", "mutants.json"), "w"), indent=1)


if __name__ == "__main__":
    main()
