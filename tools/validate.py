#!/usr/bin/env python3
"""Validate MANIFEST.json and evidence/*.json against the schemas (run with python3-vt)."""
import glob, json, os, sys
import jsonschema
V = os.path.dirname(os.path.dirname(os.path.abspath(__file__)))
ok = True
ms = json.load(open("/root/.vp/MANIFEST.schema.json"))
es = json.load(open("/root/.vp/EVIDENCE.schema.json"))
try:
    jsonschema.validate(json.load(open(os.path.join(V, "MANIFEST.json"))), ms)
    print("MANIFEST.json valid")
except Exception as e:
    ok = False; print("MANIFEST.json INVALID:", e)
for p in sorted(glob.glob(os.path.join(V, "evidence", "*.json"))):
    try:
        jsonschema.validate(json.load(open(p)), es)
        print(os.path.basename(p), "valid")
    except Exception as e:
        ok = False; print(os.path.basename(p), "INVALID:", str(e)[:500])
sys.exit(0 if ok else 1)
