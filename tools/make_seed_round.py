#!/usr/bin/env python3
"""Prepare one round of independently seeded breaking changes: a scratch worktree of /repo HEAD per property under
/tmp/wt/<ID> and a prompt file /tmp/wt/<ID>.prompt.txt (property record + the ideas of earlier rounds to avoid + the
framing of this round).  The prompts are handed to fresh sub-agents; nothing from /verif other than the property text
and the one-line titles of earlier changes goes into them.

usage: tools/make_seed_round.py <framing-file> [ids ...]
"""
import json
import os
import subprocess
import sys

VERIF = os.path.dirname(os.path.dirname(os.path.abspath(__file__)))
CLAIMED = ["C01", "C02", "C09", "C11", "C12", "C13", "C14", "C17", "C18", "C19", "C20"]


def main():
    framing = open(sys.argv[1]).read().strip()
    ids = sys.argv[2:] or CLAIMED
    props = {}
    for line in open(os.path.join(VERIF, "properties.jsonl")):
        d = json.loads(line)
        props[d["id"]] = d
    tmpl = open(os.path.join(VERIF, "tools", "seed_prompt.txt")).read()
    os.makedirs("/tmp/wt", exist_ok=True)
    for pid in ids:
        wt = "/tmp/wt/" + pid
        if not os.path.isdir(wt):
            subprocess.check_call(["git", "-C", "/repo", "worktree", "add", "--detach", "-f", wt, "HEAD"],
                                  stdout=subprocess.DEVNULL, stderr=subprocess.DEVNULL)
        earlier = []
        sd = os.path.join(VERIF, "seeded")
        for sid in sorted(os.listdir(sd)):
            if sid.startswith(pid + "-"):
                notes = os.path.join(sd, sid, "notes.md")
                meta = os.path.join(sd, sid, "meta.json")
                title = None
                if os.path.exists(notes):
                    title = open(notes).read().strip().split("\n")[0].lstrip("# ").strip()
                elif os.path.exists(meta):
                    title = json.load(open(meta)).get("summary") or json.load(open(meta)).get("needs")
                if title:
                    earlier.append("  - " + title[:200])
        avoid = framing
        if earlier:
            avoid += ("\n\nThese ideas have been used already - do NOT repeat them or close variants of them (same code site "
                      "and same mechanism):\n" + "\n".join(earlier))
        text = (tmpl.replace("@ID@", pid).replace("@N@", os.environ.get("SEED_N", "3")).replace("@PROPERTY@", json.dumps(props[pid], indent=1))
                .replace("@AVOID@", avoid))
        json.dump(props[pid], open("/tmp/wt/%s.property.json" % pid, "w"), indent=1)
        open("/tmp/wt/%s.prompt.txt" % pid, "w").write(text)
        print(pid, len(earlier), "earlier ideas,", len(text), "chars")


if __name__ == "__main__":
    main()
