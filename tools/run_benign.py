#!/usr/bin/env python3
"""Negative controls: behaviour-preserving refactorings (written by independent sub-agents) must not raise an alarm.

For each /verif/seeded/benign/<id>/patch.diff: scratch worktree of /repo HEAD, git apply, the 66 tests must pass, then
EVERY registered quick check is run with MPSIM_REPO=<worktree>; every one must exit 0.  /repo is never modified.

usage: tools/run_benign.py [--import /tmp/wt] [ids ...]
"""
import argparse
import json
import os
import re
import shutil
import subprocess
import sys
import tempfile

VERIF = os.path.dirname(os.path.dirname(os.path.abspath(__file__)))
BENIGN = os.path.join(VERIF, "seeded", os.environ.get("BENIGN_SET", "benign"))   # BENIGN_SET=benign2: the set written against the repaired tree
PY = "/venv/bin/python"
PROPS = (os.environ.get("BENIGN_PROPS", "").split(",") if os.environ.get("BENIGN_PROPS") else
         ["C01", "C02", "C09", "C11", "C12", "C13", "C14", "C17", "C18", "C19", "C20"])   # BENIGN_PROPS=C11,C12: partial re-run (result.json then holds only those; merged below)


def sh(cmd, cwd=None, env=None, timeout=3600):
    p = subprocess.run(cmd, cwd=cwd, env=env, stdout=subprocess.PIPE, stderr=subprocess.STDOUT, timeout=timeout)
    return p.returncode, p.stdout.decode("utf-8", "replace")


def import_from(src):
    for name in sorted(os.listdir(src)):
        m = re.match(r"^(N\d+)\.out$", name)
        if not m:
            continue
        for i in range(1, 9):
            diff = os.path.join(src, name, "change%d.diff" % i)
            if not os.path.exists(diff):
                continue
            out = os.path.join(BENIGN, "%s-%d" % (m.group(1), i))
            os.makedirs(out, exist_ok=True)
            shutil.copy(diff, os.path.join(out, "patch.diff"))
            md = os.path.join(src, name, "change%d.md" % i)
            if os.path.exists(md):
                shutil.copy(md, os.path.join(out, "notes.md"))
            print("imported", os.path.basename(out))


def run(bid):
    d = os.path.join(BENIGN, bid)
    wt = tempfile.mkdtemp(prefix="benwt-")
    os.rmdir(wt)
    res = {"id": bid, "checks": {}}
    try:
        rc, out = sh(["git", "-C", "/repo", "worktree", "add", "--detach", "-f", wt, "HEAD"])
        if rc:
            raise RuntimeError(out)
        rc, out = sh(["git", "apply", os.path.join(d, "patch.diff")], cwd=wt)
        res["applies"] = rc == 0
        if rc:
            res["apply_error"] = out[-400:]
            return res
        env = dict(os.environ, PYTHONDONTWRITEBYTECODE="1")
        rc, out = sh([PY, "-m", "pytest", "-q", "-p", "no:cacheprovider", "-x"], cwd=wt, env=env)
        m = re.search(r"(\d+) passed", out)
        res["tests_passed"] = int(m.group(1)) if m else 0
        for p in PROPS:
            rc, out = sh([os.path.join(VERIF, "check"), p, "--tier", "quick"], cwd=VERIF, env=dict(env, MPSIM_REPO=wt))
            sigs = re.findall(r"^violation signature: (.*?) \(\d+ runs\)", out, re.M)
            res["checks"][p] = {"rc": rc, "signatures": sigs[:6],
                                "harness": re.findall(r"^HARNESS-ERROR: (.*)$", out, re.M)[:2]}
    finally:
        sh(["git", "-C", "/repo", "worktree", "remove", "--force", wt])
        shutil.rmtree(wt, ignore_errors=True)
        sh(["git", "-C", "/repo", "worktree", "prune"])
    res["silent"] = bool(res.get("applies")) and all(c["rc"] == 0 for c in res["checks"].values())
    if os.environ.get("BENIGN_PROPS") and os.path.exists(os.path.join(d, "result.json")):
        old = json.load(open(os.path.join(d, "result.json")))       # a partial re-run updates the checks it ran
        merged = dict(old.get("checks", {}))
        merged.update(res["checks"])
        res["checks"] = merged
        res["silent"] = bool(res.get("applies")) and all(c["rc"] == 0 for c in merged.values())
        res["partial_rerun"] = sorted(PROPS)
    json.dump(res, open(os.path.join(d, "result.json"), "w"), indent=1)
    return res


def main():
    ap = argparse.ArgumentParser()
    ap.add_argument("ids", nargs="*")
    ap.add_argument("--import", dest="imp")
    args = ap.parse_args()
    if args.imp:
        import_from(args.imp)
    ids = args.ids or sorted(os.listdir(BENIGN))
    alarms = []
    for bid in ids:
        r = run(bid)
        bad = {p: c for p, c in r.get("checks", {}).items() if c["rc"] != 0}
        print("%-8s applies=%s tests=%s  %s" % (bid, r.get("applies"), r.get("tests_passed"),
                                               "all checks silent" if r.get("silent") else "ALARMS: %s" % json.dumps(bad)[:600]))
        sys.stdout.flush()
        if not r.get("silent"):
            alarms.append(bid)
    print("benign changes: %d, silent: %d, alarms: %s" % (len(ids), len(ids) - len(alarms), alarms))


if __name__ == "__main__":
    main()
