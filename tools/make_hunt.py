#!/usr/bin/env python3
"""Prepare a defect hunt on the unchanged tree: one scratch worktree of /repo HEAD and one prompt per claimed property
(/tmp/wt/<ID>, /tmp/wt/<ID>.prompt.txt).  The prompt holds the property record and the list of what is already known
(the `fixed:` entries of known_findings.jsonl for that property and the observations of DESIGN.md section 7)."""
import json
import os
import re
import subprocess
import sys

VERIF = os.path.dirname(os.path.dirname(os.path.abspath(__file__)))
CLAIMED = ["C01", "C02", "C09", "C11", "C12", "C13", "C14", "C17", "C18", "C19", "C20"]
OBS = {
    "C19": ["factory-made classes (type(name, (Command,), ns)) are filed under mpilot.commands", "a library module that raises after its class statement leaves that class registered", "threads racing on the registry", "a user command named like an EEMS 2.0 keyword (MAX, SUM ...) is rewritten before lookup", "the CLI treats every library name but eems-csv as NetCDF",
            "modules that package discovery does not find (a sub-directory without __init__.py) register their commands only when someone imports them",
            "a re-defined / reloaded command class leaves the first definition registered",
            "load_commands executes fresh copies of library modules that are not the ones in sys.modules"],
    "C02": ["FuzzyXOr / FuzzySelectedUnion mix rows and layers on grids of rank >= 2", "NormalizeZScore with StartVal > EndVal", "unsigned (Positive Integer) data wraps at zero", "0-d NetCDF variables give numpy scalars", "CSV Integer columns are parsed through float()", "an EEMSWrite target that an independent EEMSRead also reads", "curve commands lose precision on data with a large offset",
            "integer columns wrap at 2**63 in Multiply / Sum", "dependency chains deeper than about 330 commands fail with UnexpectedError (recursion)",
            "NaN cells make NormalizeCurve-family commands return uninitialised memory for those cells"],
    "C17": ["Integer reads truncate cells and the missing value before comparing", "integers above 2**53", "a Latin-1 byte or an over-long cell in another column", "reader.line_num is the last line of a multi-line data record",
            "a header name containing a carriage return cannot be read back (newline translation)", "1_000 is accepted as a number",
            "masked cells are written as -- and that column cannot be read back", "ragged rows raise UnexpectedError"],
    "C20": ["ResultParameter checks the declared kind before the producer ran and the real result after", "an int of more than 4300 digits breaks str()", "numpy arrays given for tuple / data type parameters", "NumberParameter returns a bool for True", "a command object is turned into text by string and path parameters", "nested lists are not cleaned below the first level by an untyped ListParameter",
            "a string of more than 4300 digits cleans to infinity", "clean() without a program raises AttributeError for paths and results",
            "NaN strings do not compare equal after cleaning"],
    "C11": ["SyntaxErrors carry a character position only", "EmptyInputs / MixedArrayShapes / EmptyDataFile / InvalidDataFile are raised without a line (execute-time, data dependent)", "an EEMS 2.0 command name converts the whole file",
            "a command whose result name and command name are on different lines carries the line of the command name",
            "errors about list arguments carry the line of the opening bracket", "a lone CR inside a comment swallows the rest up to the next LF"],
    "C12": ["Copy of a fuzzy result is not fuzzy (fuzziness belongs to the command class)", "Command.result / Command.run() skip the whole-model check", "the output-kind check compares the outermost parameter class only", "EEMS 2.0 result names are taken unconverted", "unquoted values are rebuilt from their tokens (PositiveFloat)", "long dependency chains hit the recursion limit",
            "a cyclic model is rejected only after its acyclic output commands ran", "a wrong option string (Direction = Sideways) is only rejected inside execute",
            "mixing EEMS 2.0 commands into a file drops OutFileName / NewFieldName arguments"],
    "C13": ["numpy values / huge ints passed through add_command", "DeprecationWarning under -W error for unknown escapes", "python -OO removes the grammar docstrings",
            "a dependency chain deeper than the recursion limit gives UnexpectedError (accepted)", "the model file itself being unreadable / undecodable is not judged",
            "-l with a module that does not exist raises ModuleNotFoundError in the CLI"],
    "C18": ["the documented parameter name MissingVal is MissingValue in the code", "MissingValue = nan is ignored", "a result named like a template dimension / listed twice fails in EEMSWrite", "Integer reads truncate float32 but round float64", "OutFileName equal to DimensionFileName destroys the template",
            "checks run before the MissingValue mask is applied", "a float32 variable never matches a MissingValue that is not representable in float32",
            "fractional MissingValue with integer reads is unspecified"],
    "C14": ["a program that is nothing but a cycle may be rejected with a fuzziness / kind error raised by the argument check",
            "a cyclic program whose acyclic part fails first is rejected with that other error", "two threads evaluating one program concurrently is out of scope"],
    "C01": ["with CR-only line breaks a # comment swallows the following commands (lexer)",
            "deep chains exceed the recursion limit", "a producer whose real result contradicts its declared output kind makes a second run() raise",
            "two threads evaluating one program concurrently is out of scope"],
    "C09": ["single-input FuzzyOr / FuzzyAnd clamp the array of a producer flagged fuzzy that holds values outside [-1, 1]", "FuzzyNot shares its mask buffer with its input",
            "single-input Minimum/Maximum/FuzzyOr/FuzzyAnd return the input object itself (no violation by itself)"],
}


def main():
    ids = sys.argv[1:] or CLAIMED
    props = {json.loads(l)["id"]: json.loads(l) for l in open(os.path.join(VERIF, "properties.jsonl"))}
    tmpl = open(os.path.join(VERIF, "tools", "hunt_prompt.txt")).read()
    fixed = {}
    for line in open(os.path.join(VERIF, "known_findings.jsonl")):
        m = re.match(r'^(known|fixed): property=(C\d+) (?:[0-9a-f]{7,40} )?sig="[^"]*" (.*)$', line.strip())
        if m:
            fixed.setdefault(m.group(2), []).append(re.sub(r"; replay findings/.*$", "", m.group(3))[:260])
    os.makedirs("/tmp/wt", exist_ok=True)
    for pid in ids:
        wt = "/tmp/wt/" + pid
        if not os.path.isdir(wt):
            subprocess.check_call(["git", "-C", "/repo", "worktree", "add", "--detach", "-f", wt, "HEAD"],
                                  stdout=subprocess.DEVNULL, stderr=subprocess.DEVNULL)
        known = ["  - (already repaired) " + t for t in fixed.get(pid, [])] + ["  - (recorded, not judged) " + t for t in OBS.get(pid, [])]
        text = tmpl.replace("@ID@", pid).replace("@PROPERTY@", json.dumps(props[pid], indent=1)).replace(
            "@KNOWN@", "\n".join(known) or "  (nothing yet)")
        open("/tmp/wt/%s.prompt.txt" % pid, "w").write(text)
        print(pid, len(known), "known items,", len(text), "chars")


if __name__ == "__main__":
    main()
