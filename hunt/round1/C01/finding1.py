"""C01 finding 1: with CR-only line breaks a comment swallows every command after it; they are never executed.

Run as:  cd /tmp/wt/C01 && /venv/bin/python /tmp/wt/C01.out/finding1.py
"""
import os
import sys
import tempfile

sys.path.insert(0, os.getcwd())
import mpilot  # noqa: E402

assert mpilot.__file__.startswith("/tmp/wt/C01/"), mpilot.__file__
from mpilot.program import Program  # noqa: E402

work = tempfile.mkdtemp()
with open(os.path.join(work, "d.csv"), "w") as f:
    f.write("a,b\n1,10\n2,20\n3,30\n")

LINES = [
    "A = EEMSRead(InFileName = d.csv, InFieldName = a)",
    "# B is the second input",
    "B = EEMSRead(InFileName = d.csv, InFieldName = b)",
    "S = Sum(InFieldNames = [A, B, A])",
    "W = EEMSWrite(OutFileName = out.csv, OutFieldNames = [S])",
]


def run(line_break):
    source = line_break.join(LINES) + line_break
    out = os.path.join(work, "out.csv")
    if os.path.exists(out):
        os.remove(out)
    program = Program.from_source(source, working_dir=work)

    counts = {}
    for name, command in program.commands.items():  # external wrapper around execute() of every command instance
        def wrapped(_orig=command.execute, _name=name, **kwargs):
            counts[_name] = counts.get(_name, 0) + 1
            return _orig(**kwargs)
        command.execute = wrapped

    program.run()  # no error in either case
    return sorted(program.commands), counts, os.path.exists(out)


for label, line_break in (("LF", "\n"), ("CRLF", "\r\n"), ("CR", "\r")):
    names, counts, written = run(line_break)
    print("%-4s commands in program: %s   executions: %s   out.csv written: %s" % (label, names, counts, written))

# Without the comment line, CR-only line breaks are understood perfectly well: "\r" IS a line break of the language
source = "\r".join(l for l in LINES if not l.startswith("#")) + "\r"
print("CR, no comment:", sorted(Program.from_source(source, working_dir=work).commands))

names, counts, written = run("\r")
print()
print("property demands : the 4 commands A, B, S, W each execute exactly once (and out.csv is written)")
print("observed with CR : run() returns normally, executions = %s, out.csv written = %s" % (counts, written))
print("VIOLATION" if counts != {"A": 1, "B": 1, "S": 1, "W": 1} else "ok")
