"""C11 finding 2: several parameter-validation errors of the EEMS libraries are raised without any line."""
import os, subprocess, sys, tempfile
sys.path.insert(0, os.getcwd())
import mpilot
assert mpilot.__file__.startswith(os.getcwd()), mpilot.__file__
from mpilot.program import Program, EEMS_CSV_LIBRARIES

tmp = tempfile.mkdtemp(prefix="c11f2_")
open(os.path.join(tmp, "d.csv"), "w").write("a,b\n1,2\n3,4\n")
open(os.path.join(tmp, "empty.csv"), "w").close()
HEAD = ('a = EEMSRead(InFileName = "d.csv", InFieldName = a)\n'
        'b = EEMSRead(InFileName = "d.csv", InFieldName = b)\n'
        "fa = CvtToFuzzy(InFieldName = a)\n"
        "fb = CvtToFuzzy(InFieldName = b)\n"
        "\n")
CASES = {   # name: (source, line of the offending command, line of the offending argument)
    "WeightedSum: 2 inputs, 1 weight": (HEAD + "s = WeightedSum(\n    InFieldNames = [a, b],\n    Weights = [1]\n)\n", 6, 8),
    "WeightedMean: 2 inputs, 3 weights": (HEAD + "s = WeightedMean(\n    InFieldNames = [a, b],\n    Weights = [1, 2, 3]\n)\n", 6, 8),
    "FuzzyWeightedUnion: 2 inputs, 1 weight": (HEAD + "s = FuzzyWeightedUnion(\n    InFieldNames = [fa, fb],\n    Weights = [1]\n)\n", 6, 8),
    "EEMSWrite: empty OutFieldNames": (HEAD + 'w = EEMSWrite(\n    OutFileName = "o.csv",\n    OutFieldNames = []\n)\n', 6, 8),
    "EEMSRead: InFieldName not a header": (HEAD + 'c = EEMSRead(\n    InFileName = "d.csv",\n    InFieldName = zzz\n)\n', 6, 8),
    "EEMSRead: InFileName is an empty file": (HEAD + 'c = EEMSRead(\n    InFileName = "empty.csv",\n    InFieldName = a\n)\n', 6, 7),
}
for name, (src, cmd_line, arg_line) in CASES.items():
    try:
        Program.from_source(src, libraries=EEMS_CSV_LIBRARIES, working_dir=tmp).run()
        got = "no error"
    except Exception as e:
        got = "{}(lineno={!r})".format(type(e).__name__, getattr(e, "lineno", "<no attribute>"))
    path = os.path.join(tmp, "m.mpt"); open(path, "w").write(src)
    r = subprocess.run([sys.executable, "-c",
                        "import sys; sys.path.insert(0, %r); from mpilot.cli.mpilot import main; main()" % os.getcwd(),
                        "eems-csv", path], capture_output=True, text=True)
    mark = [l for l in r.stderr.splitlines() if l.startswith("-->")]
    print("{:42s} -> {:32s} CLI marks: {!r:6}  (property demands line {} or {})".format(name, got, mark or None, cmd_line, arg_line))
