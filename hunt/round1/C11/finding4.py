"""C11 finding 4 (borderline): one EEMS-2 command name anywhere makes the loader strip OutFileName / NewFieldName
from every command, and the resulting MissingParameters error marks a command whose source line is complete."""
import os, subprocess, sys, tempfile
sys.path.insert(0, os.getcwd())
import mpilot
assert mpilot.__file__.startswith(os.getcwd()), mpilot.__file__
from mpilot.program import Program, EEMS_CSV_LIBRARIES

tmp = tempfile.mkdtemp(prefix="c11f4_")
open(os.path.join(tmp, "d.csv"), "w").write("a,b\n1,2\n3,4\n")
def src(read):
    return ('a = %s(InFileName = "d.csv", InFieldName = a)\n'      # line 1: the only line that differs
            "\n"
            "w = EEMSWrite(\n"                                       # line 3
            '    OutFileName = "o.csv",\n'                           # line 4: OutFileName IS given
            "    OutFieldNames = [a]\n"
            ")\n") % read
for read in ("EEMSRead", "READ"):
    try:
        Program.from_source(src(read), libraries=EEMS_CSV_LIBRARIES, working_dir=tmp).run()
        print(read, "-> runs")
    except Exception as e:
        print(read, "->", type(e).__name__, "lineno", e.lineno, "|", str(e).splitlines()[0])
print("The only difference between the two programs is on line 1, and line 3-6 do give OutFileName;")
print("the error nevertheless carries line 3 and says OutFileName is missing.")
