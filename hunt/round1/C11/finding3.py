"""C11 finding 3: load-time syntax errors carry no line; the only one that names a line names the comma's line."""
import os, subprocess, sys, tempfile
sys.path.insert(0, os.getcwd())
import mpilot
assert mpilot.__file__.startswith(os.getcwd()), mpilot.__file__
from mpilot.program import Program, EEMS_CSV_LIBRARIES

tmp = tempfile.mkdtemp(prefix="c11f3_")
open(os.path.join(tmp, "d.csv"), "w").write("a,b\n1,2\n3,4\n")
GOOD = 'a = EEMSRead(InFileName = "d.csv", InFieldName = a)\n\n'
CASES = {
    # fault on line 5 (an illegal token in the value of TrueThreshold)
    "stray ']' in an argument": (GOOD + "f = CvtToFuzzy(\n    InFieldName = a,\n    TrueThreshold = ],\n)\n", "5"),
    # fault on line 4 (unterminated call)
    "missing ')'": (GOOD + "f = CvtToFuzzy(\n    InFieldName = a\n", "3 or 4"),
    # fault on line 5 (invalid escape in a string)
    "bad escape": (GOOD + "f = CvtToFuzzy(\n    InFieldName = a,\n    Direction = \"\\N{nope}\"\n)\n", "5"),
    # list mixing a value and a key/value pair: argument on line 3, value on 5, pair on 7; line 6 holds only a comma
    "mixed list": (GOOD + "b = EEMSRead(InFileName = \"d.csv\", InFieldName = b, Metadata =\n  [\n    1\n    ,\n    \"k\": 2\n  ]\n)\n", "3 (argument) / 4 (list) / 5 or 7 (elements)"),
}
for name, (src, where) in CASES.items():
    try:
        Program.from_source(src, libraries=EEMS_CSV_LIBRARIES, working_dir=tmp)
        print(name, "-> no error")
    except Exception as e:
        print("{:26s} -> {}: {!s}".format(name, type(e).__name__, e).replace("\n", "\\n"))
        print("{:26s}    e.lineno = {!r}; property demands line {}".format("", getattr(e, "lineno", "<none>"), where))
    path = os.path.join(tmp, "m.mpt"); open(path, "w").write(src)
    r = subprocess.run([sys.executable, "-c",
                        "import sys; sys.path.insert(0, %r); from mpilot.cli.mpilot import main; main()" % os.getcwd(),
                        "eems-csv", path], capture_output=True, text=True)
    print("{:26s}    CLI: exit {}, marks {!r}, stderr starts {!r}".format(
        "", r.returncode, [l for l in r.stderr.splitlines() if l.startswith("-->")] or None, r.stderr.splitlines()[0][:50]))
