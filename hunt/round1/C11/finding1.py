"""C11 finding 1: the NetCDF library's errors are handed the command's line and lose it."""
import os, shutil, subprocess, sys, tempfile
sys.path.insert(0, os.getcwd())
import mpilot
assert mpilot.__file__.startswith(os.getcwd()), mpilot.__file__
from mpilot.program import Program, EEMS_NETCDF_LIBRARIES
from mpilot.exceptions import ProgramError

tmp = tempfile.mkdtemp(prefix="c11f1_")
shutil.copy(os.path.join("tests", "eems", "data", "netcdf_test.nc"), os.path.join(tmp, "t.nc"))

SRC = (
    "# line 1\n"
    "\n"
    'ok = EEMSRead(InFileName = "t.nc", InFieldName = elevation)\n'
    "bad = EEMSRead(\n"                       # line 4: the offending command
    '    InFileName = "t.nc",\n'
    "    InFieldName = no_such_variable\n"    # line 6: the offending argument
    ")\n"
)
try:
    p = Program.from_source(SRC, libraries=EEMS_NETCDF_LIBRARIES, working_dir=tmp)
    p.run()
except Exception as e:
    print("raised        :", type(e).__name__, "| is ProgramError:", isinstance(e, ProgramError))
    print("e.lineno      :", getattr(e, "lineno", "<no such attribute>"))
    print("e.args        :", e.args, "  <- the line the command passed (self.lineno) ended up here")

path = os.path.join(tmp, "m.mpt")
open(path, "w").write(SRC)
r = subprocess.run([sys.executable, "-c",
                    "import sys; sys.path.insert(0, %r); from mpilot.cli.mpilot import main; main()" % os.getcwd(),
                    "eems-netcdf", path], capture_output=True, text=True)
print("--- CLI stderr ---"); print(r.stderr, end="")
print("--- CLI marks a line ('-->'):", any(l.startswith("-->") for l in r.stderr.splitlines()))
print("PROPERTY DEMANDS: the error carries line 4 (command) or 6 (argument), and the CLI marks that line.")
