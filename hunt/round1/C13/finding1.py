"""C13 finding 1: an integer of more than 4300 digits handed to add_command().

Program.add_command() is the documented way to build a model in Python; a number given for a string
parameter is legal (5 becomes "5").  With a 4301-digit int the conversion to text fails:
  (a) for a string / path parameter a raw ValueError escapes from Program.run() (pre-pass cleaning);
  (b) for a result / list / tuple parameter ParameterNotValid is raised, but its problem/solution
      message cannot be built: str(exc) raises ValueError.
"""
import os
import sys

sys.path.insert(0, os.getcwd())

import tempfile

import mpilot
from mpilot.exceptions import MPilotError
from mpilot.program import Program

assert mpilot.__file__.startswith("/tmp/wt/C13/"), mpilot.__file__

wd = tempfile.mkdtemp()
with open(os.path.join(wd, "a.csv"), "w") as f:
    f.write("x,y\n1,2\n3,4\n")

BIG = 10 ** 4300  # 4301 digits; 10 ** 4299 (4300 digits) is handled fine


def outcome(label, build):
    program = Program(working_dir=wd)
    read = program.find_command_class("EEMSRead")
    program.add_command(read, "A", {"InFileName": "a.csv", "InFieldName": "x"})
    build(program)
    try:
        program.run()
        print(label, "-> ran")
    except SyntaxError as exc:
        print(label, "-> SyntaxError (allowed)", exc)
    except MPilotError as exc:
        try:
            print(label, "-> MPilot error (allowed):", type(exc).__name__, str(exc).splitlines()[0][:90])
        except Exception as exc2:
            print(label, "-> VIOLATION: %s raised, but its message cannot be produced: %s: %s"
                  % (type(exc).__name__, type(exc2).__name__, str(exc2)[:70]))
    except Exception as exc:
        print(label, "-> VIOLATION: raw %s escapes from run(): %s" % (type(exc).__name__, str(exc)[:70]))


# control: an ordinary number for a string parameter is accepted and reported through an MPilot error
outcome("control  InFieldName = 5          ",
        lambda p: p.add_command(p.find_command_class("EEMSRead"), "B", {"InFileName": "a.csv", "InFieldName": 5}))
# (a) string and path parameters
outcome("(a) EEMSRead  InFieldName = 10**4300",
        lambda p: p.add_command(p.find_command_class("EEMSRead"), "B", {"InFileName": "a.csv", "InFieldName": BIG}))
outcome("(a) EEMSRead  InFileName  = 10**4300",
        lambda p: p.add_command(p.find_command_class("EEMSRead"), "B", {"InFileName": BIG, "InFieldName": "x"}))
outcome("(a) CvtToBinary Direction = 10**4300",
        lambda p: p.add_command(p.find_command_class("CvtToBinary"), "B",
                                {"InFieldName": "A", "Threshold": 1, "Direction": BIG}))
# (b) the error is the right type, but has no printable message
outcome("(b) Copy InFieldName = 10**4300     ",
        lambda p: p.add_command(p.find_command_class("Copy"), "B", {"InFieldName": BIG}))
outcome("(b) Copy Metadata = 10**4300        ",
        lambda p: p.add_command(p.find_command_class("Copy"), "B", {"InFieldName": "A", "Metadata": BIG}))
outcome("(b) Sum InFieldNames = [10**4300]   ",
        lambda p: p.add_command(p.find_command_class("Sum"), "B", {"InFieldNames": [BIG]}))
outcome("(b) WeightedSum Weights = [[10**4300]]",
        lambda p: p.add_command(p.find_command_class("WeightedSum"), "B", {"InFieldNames": ["A"], "Weights": [[BIG]]}))

print()
print("The property demands: running either succeeds or fails with an MPilot error (whose problem/solution")
print("message can be printed); no raw ValueError may escape from Program.run().")
