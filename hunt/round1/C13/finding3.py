"""C13 finding 3 (depends on the warning filter): a quoted string with an unknown escape ("\\d", "\\400")
makes the lexer's unicode_escape decoding emit a DeprecationWarning.  When warnings are errors
(python -W error, PYTHONWARNINGS=error, pytest filterwarnings = error) the warning is raised as an
exception inside t_STRING; only UnicodeError is converted there, so DeprecationWarning escapes from
Program.from_source() and, through the command-line tool, as a traceback.
"""
import os
import subprocess
import sys
import tempfile

sys.path.insert(0, os.getcwd())
import mpilot

assert mpilot.__file__.startswith("/tmp/wt/C13/"), mpilot.__file__

CHILD = r'''
import os, sys
sys.path.insert(0, os.getcwd())
from mpilot.program import Program
from mpilot.exceptions import MPilotError
for text in ('"a\\d.csv"', '"\\400"', '"C:\\data\\in.csv"'):
    source = 'A = EEMSRead(InFileName = %s, InFieldName = x)' % text
    try:
        Program.from_source(source, working_dir="/tmp").run()
        print("  ", text, "-> ran")
    except SyntaxError as exc:
        print("  ", text, "-> SyntaxError (allowed)")
    except MPilotError as exc:
        print("  ", text, "-> MPilot error (allowed):", type(exc).__name__)
    except Exception as exc:
        print("  ", text, "-> VIOLATION: raw %s escapes from from_source(): %s" % (type(exc).__name__, exc))
'''
for flags in ([], ["-W", "error"]):
    print("python", " ".join(flags) or "(default warning filter)")
    sys.stdout.flush()
    subprocess.run([sys.executable] + flags + ["-c", CHILD], cwd=os.getcwd())

# the same through the command-line tool
wd = tempfile.mkdtemp()
path = os.path.join(wd, "m.mpt")
with open(path, "w") as f:
    f.write('A = EEMSRead(InFileName = "a\\d.csv", InFieldName = x)\n')
CLI = "import sys,os; sys.path.insert(0, os.getcwd()); from mpilot.cli.mpilot import main; main()"
r = subprocess.run([sys.executable, "-W", "error", "-c", CLI, "eems-csv", path], cwd=os.getcwd(), capture_output=True)
print("command-line tool under -W error: exit status", r.returncode, "; last stderr line:",
      r.stderr.decode().strip().splitlines()[-1])
print()
print("The property demands a syntax error or an MPilot error (here PathDoesNotExist, as without -W error);")
print("DeprecationWarning is neither.")
