"""C13 finding 2: numpy values handed to add_command() escape from the pre-pass of Program.run().

Data arrays are one of the value kinds of this library (DataParameter).  Giving an array (instead of a
tuple) for Metadata, or the numpy.ma.masked constant (what arr.min() of an all-missing result returns)
for a number parameter, makes a parameter cleaner raise something it does not convert:
  TupleParameter.clean:  `value == []` is an element-wise comparison -> raw ValueError
  NumberParameter.clean: int(masked) raises numpy.ma.MaskError, which is neither ValueError nor TypeError
Both cleaners run in the pre-pass of Program.run(), outside the try block of Command.run().
"""
import os
import sys

sys.path.insert(0, os.getcwd())

import tempfile
import warnings

import numpy

import mpilot
from mpilot.exceptions import MPilotError
from mpilot.program import Program

assert mpilot.__file__.startswith("/tmp/wt/C13/"), mpilot.__file__
warnings.simplefilter("ignore")

wd = tempfile.mkdtemp()
with open(os.path.join(wd, "a.csv"), "w") as f:
    f.write("x,y\n1,2\n3,4\n")


def outcome(label, command, arguments):
    program = Program(working_dir=wd)
    program.add_command(program.find_command_class("EEMSRead"), "A", {"InFileName": "a.csv", "InFieldName": "x"})
    program.add_command(program.find_command_class(command), "B", arguments)
    try:
        program.run()
        print(label, "-> ran")
    except MPilotError as exc:
        print(label, "-> MPilot error (allowed):", type(exc).__name__, str(exc).splitlines()[0][:80])
    except Exception as exc:
        print(label, "-> VIOLATION: raw %s.%s escapes from run(): %s"
              % (type(exc).__module__, type(exc).__name__, str(exc)[:70]))


arr = numpy.array([1.0, 2.0])
outcome("control  Copy InFieldName = array        ", "Copy", {"InFieldName": arr})
outcome("control  Copy Metadata = (1, 2)          ", "Copy", {"InFieldName": "A", "Metadata": (1, 2)})
outcome("Copy Metadata = array([1., 2.])          ", "Copy", {"InFieldName": "A", "Metadata": arr})
outcome("Copy Metadata = masked array             ", "Copy",
        {"InFieldName": "A", "Metadata": numpy.ma.array([1, 2], mask=[0, 1])})
outcome("Normalize StartVal = numpy.ma.masked     ", "Normalize", {"InFieldName": "A", "StartVal": numpy.ma.masked})
outcome("WeightedSum Weights = [numpy.ma.masked]  ", "WeightedSum",
        {"InFieldNames": ["A"], "Weights": [numpy.ma.masked]})

print()
print("The property demands ParameterNotValid (an MPilot error) for every argument kind confusion;")
print("no raw ValueError / MaskError may escape from Program.run().")
