"""C13 finding 4 (depends on an interpreter flag): under `python -OO` docstrings are stripped, and the PLY
grammar of mpilot/parser/parser.py lives in the docstrings of the p_* methods.  Parser() then finds no
productions and every Program.from_source() call, for every command file, fails with a raw IndexError
raised inside ply.yacc (Grammar.set_start), also through the command-line tool.
"""
import os
import subprocess
import sys
import tempfile

sys.path.insert(0, os.getcwd())
import mpilot

assert mpilot.__file__.startswith("/tmp/wt/C13/"), mpilot.__file__

CHILD = r'''
import os, sys
sys.path.insert(0, os.getcwd())
from mpilot.program import Program
from mpilot.exceptions import MPilotError
for source in ('A = Copy(InFieldName = B)', 'A = = ('):
    try:
        Program.from_source(source)
        print("  ", repr(source), "-> loaded")
    except SyntaxError as exc:
        print("  ", repr(source), "-> SyntaxError (allowed)")
    except MPilotError as exc:
        print("  ", repr(source), "-> MPilot error (allowed):", type(exc).__name__)
    except Exception as exc:
        print("  ", repr(source), "-> VIOLATION: raw %s escapes from from_source(): %s" % (type(exc).__name__, exc))
'''
for flags in ([], ["-O"], ["-OO"]):
    print("python", " ".join(flags) or "(no flag)")
    sys.stdout.flush()
    subprocess.run([sys.executable] + flags + ["-c", CHILD], cwd=os.getcwd(), stderr=subprocess.DEVNULL)

wd = tempfile.mkdtemp()
path = os.path.join(wd, "m.mpt")
with open(path, "w") as f:
    f.write("A = Copy(InFieldName = B)\n")
CLI = "import sys,os; sys.path.insert(0, os.getcwd()); from mpilot.cli.mpilot import main; main()"
r = subprocess.run([sys.executable, "-OO", "-c", CLI, "eems-csv", path], cwd=os.getcwd(), capture_output=True)
print("command-line tool under -OO: exit status", r.returncode, "; last stderr line:",
      r.stderr.decode().strip().splitlines()[-1])
print()
print("The property demands a syntax error or an MPilot error (here ResultDoesNotExist / SyntaxError);")
print("IndexError is neither, and the command-line tool prints a traceback instead of a problem/solution message.")
