"""C12 finding 2: the fuzzy / non-fuzzy discipline looks only at a class attribute of the producer, so
 (a) data read with the NetCDF EEMSRead and declared `DataType = Fuzzy` (and range-checked as fuzzy by the reader) is
     rejected by every fuzzy consumer ("is not fuzzy") and accepted by every non-fuzzy consumer;
 (b) Copy forgets the fuzziness of what it copies: fuzzy -> Copy -> Sum is accepted, fuzzy -> Copy -> FuzzyNot is rejected."""
import os, sys
sys.path.insert(0, os.getcwd())
import tempfile, shutil
import mpilot
assert mpilot.__file__.startswith("/tmp/wt/C12/"), mpilot.__file__
from netCDF4 import Dataset
from mpilot.program import Program, EEMS_CSV_LIBRARIES, EEMS_NETCDF_LIBRARIES


def attempt(title, src, libs, wd):
    try:
        Program.from_source(src, libs, wd).run()
        print("%-62s -> accepted" % title)
    except Exception as exc:
        print("%-62s -> rejected: %s: %s" % (title, type(exc).__name__, str(exc).split("\n")[0]))


wd = tempfile.mkdtemp()
with Dataset(os.path.join(wd, "in.nc"), "w") as ds:
    ds.createDimension("x", 3)
    ds.createVariable("x", "f8", ("x",))[:] = [0, 1, 2]
    ds.createVariable("fz", "f8", ("x",))[:] = [-1.0, 0.25, 1.0]
with open(os.path.join(wd, "in.csv"), "w") as f:
    f.write("a\n1\n2\n3\n")

read = "A = EEMSRead(InFileName = in.nc, InFieldName = fz, DataType = Fuzzy)\n"
attempt("(a) NetCDF read DataType=Fuzzy -> FuzzyNot (fuzzy consumer)", read + "N = FuzzyNot(InFieldName = A)", EEMS_NETCDF_LIBRARIES, wd)
attempt("(a) NetCDF read DataType=Fuzzy -> Sum (non-fuzzy consumer)", read + "S = Sum(InFieldNames = [A, A])", EEMS_NETCDF_LIBRARIES, wd)

pre = "A = EEMSRead(InFileName = in.csv, InFieldName = a)\nF = CvtToFuzzy(InFieldName = A)\nC = Copy(InFieldName = F)\n"
attempt("(b) fuzzy -> Copy -> Sum (non-fuzzy consumer)", pre + "S = Sum(InFieldNames = [C, A])", EEMS_CSV_LIBRARIES, wd)
attempt("(b) fuzzy -> Copy -> FuzzyNot (fuzzy consumer)", pre + "N = FuzzyNot(InFieldName = C)", EEMS_CSV_LIBRARIES, wd)
attempt("    control: fuzzy -> Sum directly", pre + "S = Sum(InFieldNames = [F, A])", EEMS_CSV_LIBRARIES, wd)
shutil.rmtree(wd)

print()
print("The property demands: a reference is accepted exactly when the referenced result has the fuzziness the consumer")
print("declares. Results that are fuzzy (declared so in the model, or a copy of a fuzzy result) must be accepted by")
print("FuzzyNot and rejected by Sum; all four outcomes above are the opposite, and the message 'The data returned by")
print("\"A\" is not fuzzy' contradicts the model's own DataType = Fuzzy.")
