"""C12 finding 5: in EEMS 2.0 syntax the result name of a command is taken, unconverted, from its NewFieldName /
InFieldName argument.
 (a) A field whose name is written as a number (a CSV column called 2020) becomes a result whose name is the int 2020;
     every reference to it is then rejected with ParameterNotValid ("a value of type Result was expected, but value
     2020 ... was provided") although the result exists and has the right kind. Quoting the name makes the same model
     run.
 (b) A command that has neither argument gets the result name None: one such command is accepted, two are rejected
     with DuplicateResult naming a result "None" that appears nowhere in the model."""
import os, sys
sys.path.insert(0, os.getcwd())
import tempfile, shutil
import mpilot
assert mpilot.__file__.startswith("/tmp/wt/C12/"), mpilot.__file__
from mpilot.program import Program, EEMS_CSV_LIBRARIES


def attempt(title, src):
    wd = tempfile.mkdtemp()
    with open(os.path.join(wd, "in.csv"), "w") as f:
        f.write("a,2020\n1,2\n3,4\n")
    try:
        program = Program.from_source(src, EEMS_CSV_LIBRARIES, wd)
        program.run()
        print("%s\n    accepted; result names: %r" % (title, list(program.commands)))
    except Exception as exc:
        print("%s\n    rejected with %s: %s" % (title, type(exc).__name__, str(exc).split("\n")[0]))
    shutil.rmtree(wd)


attempt("(a) READ(InFieldName = 2020) then CVTTOFUZZY(InFieldName = 2020, ...)",
        "READ(InFileName = in.csv, InFieldName = 2020)\n"
        "CVTTOFUZZY(InFieldName = 2020, NewFieldName = fz, TrueThreshold = 4, FalseThreshold = 2)\n")
attempt("(a) control: the same model with the name quoted",
        'READ(InFileName = in.csv, InFieldName = "2020")\n'
        'CVTTOFUZZY(InFieldName = "2020", NewFieldName = fz, TrueThreshold = 4, FalseThreshold = 2)\n')
attempt("(a) control: the same model on the column called a",
        "READ(InFileName = in.csv, InFieldName = a)\n"
        "CVTTOFUZZY(InFieldName = a, NewFieldName = fz, TrueThreshold = 3, FalseThreshold = 1)\n")
attempt("(b) one SUM without NewFieldName",
        "READ(InFileName = in.csv, InFieldName = a)\nSUM(InFieldNames = [a, a])\n")
attempt("(b) two commands without NewFieldName",
        "READ(InFileName = in.csv, InFieldName = a)\nSUM(InFieldNames = [a, a])\nMULT(InFieldNames = [a, a])\n")

print()
print("The property demands: (a) the referenced result exists and is non-fuzzy data, so the model is accepted (as it")
print("is when the name is quoted); (b) the rejection names the offending command or result of the model, and does so")
print("consistently: a result name None is either always or never acceptable.")
