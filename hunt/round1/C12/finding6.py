"""C12 finding 6: an unquoted value is rebuilt from its tokens (str(number) + word, blanks dropped) before it is
checked, so what is checked is not what the model says:
 (a) a list of results with a comma missing, [A B, C], is a reference to the result AB: the faulty model is accepted
     when a result AB exists, and otherwise the error names a result "AB" that the model never mentions;
 (b) an existing input file whose unquoted name contains digits after a dot (in_2.50.csv) is looked up as
     in_20.5.csv: the well-formed model is rejected, and PathDoesNotExist names a path that is not in the model."""
import os, sys
sys.path.insert(0, os.getcwd())
import tempfile, shutil
import mpilot
assert mpilot.__file__.startswith("/tmp/wt/C12/"), mpilot.__file__
from mpilot.program import Program, EEMS_CSV_LIBRARIES


def attempt(title, src):
    wd = tempfile.mkdtemp()
    for name in ("in.csv", "in_2.50.csv"):
        with open(os.path.join(wd, name), "w") as f:
            f.write("a,b\n1,2\n3,4\n")
    try:
        program = Program.from_source(src, EEMS_CSV_LIBRARIES, wd)
        program.run()
        print("%s\n    accepted; S = %s" % (title, program.commands["S"].result if "S" in program.commands else "-"))
    except Exception as exc:
        print("%s\n    rejected with %s: %s" % (title, type(exc).__name__, str(exc).split("\n")[0].replace(wd, "<dir>")))
    shutil.rmtree(wd)


READS = ("A = EEMSRead(InFileName = in.csv, InFieldName = a)\n"
         "B = EEMSRead(InFileName = in.csv, InFieldName = b)\n")
attempt("(a) comma missing between A and B, and a result AB exists",
        READS + "AB = Sum(InFieldNames = [A, A])\nS = Sum(InFieldNames = [A B, A])\n")
attempt("(a) comma missing between A and B, no result AB",
        READS + "S = Sum(InFieldNames = [A B, A])\n")
attempt("(b) the existing file in_2.50.csv, unquoted",
        "A = EEMSRead(InFileName = in_2.50.csv, InFieldName = a)\n")
attempt("(b) control: the same, quoted",
        'A = EEMSRead(InFileName = "in_2.50.csv", InFieldName = a)\n')

print()
print('The property demands: (a) "A B" is not the name of any result, so the model is rejected, naming the offending')
print("value; (b) the path exists, so the model is accepted (as it is when quoted), and an error names the offending value.")
