"""C12 finding 1: a well-formed model whose dependency chain is a few hundred commands long is rejected
(UnexpectedError wrapping RecursionError), and only after other commands ran and wrote their output."""
import os, sys
sys.path.insert(0, os.getcwd())
import tempfile, shutil
import mpilot
assert mpilot.__file__.startswith("/tmp/wt/C12/"), mpilot.__file__
from mpilot.program import Program, EEMS_CSV_LIBRARIES

for n in (300, 400):
    wd = tempfile.mkdtemp()
    with open(os.path.join(wd, "in.csv"), "w") as f:
        f.write("a\n1\n2\n3\n")
    lines = [
        "A0 = EEMSRead(InFileName = in.csv, InFieldName = a)",
        "W = EEMSWrite(OutFileName = out.csv, OutFieldNames = [A0])",
    ]
    # A1 = Copy(A0), A2 = Copy(A1), ...: every name exists, every kind and fuzziness matches, no cycle
    lines += ["A%d = Copy(InFieldName = A%d)" % (i, i - 1) for i in range(1, n)]
    program = Program.from_source("\n".join(lines), EEMS_CSV_LIBRARIES, wd)
    try:
        program.run()
        outcome = "accepted"
    except Exception as exc:
        outcome = "REJECTED with %s: %s" % (type(exc).__name__, str(exc).split("\n")[0][:90])
    print("chain of %d commands: %s; out.csv written: %s" % (n, outcome, os.path.exists(os.path.join(wd, "out.csv"))))
    shutil.rmtree(wd)

print()
print("The property demands: the 400-command model satisfies every well-formedness condition, so it must be accepted")
print("like the 300-command one; and a rejected model must not have written out.csv.")
