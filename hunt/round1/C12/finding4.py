"""C12 finding 4: the output-kind check of a referenced result compares only the outermost parameter class.
With the commands of the developer guide (docs/developer/guides/creating-commands.rst: a consumer declared
ResultParameter(ListParameter(NumberParameter()))), a producer that declares a list of STRINGS is accepted for a
consumer that declares a list of NUMBERS; likewise any String/Number producer is accepted by a consumer declaring a
Path or a Data Type (PathParameter and DataTypeParameter inherit StringParameter.accepts). The model is rejected only
inside execute, after other commands ran and wrote output."""
import os, sys
sys.path.insert(0, os.getcwd())
import tempfile, shutil, types
import mpilot
assert mpilot.__file__.startswith("/tmp/wt/C12/"), mpilot.__file__
from mpilot import params
from mpilot.commands import Command
from mpilot.program import Program, EEMS_CSV_LIBRARIES

# a custom library, as the developer guide describes ("myproject.commands.custom")
lib = types.ModuleType("c12_custom_lib")
sys.modules["c12_custom_lib"] = lib
exec('''
from mpilot import params
from mpilot.commands import Command

class Names(Command):
    inputs = {"Values": params.ListParameter(params.StringParameter())}
    output = params.ListParameter(params.StringParameter())      # a list of strings
    def execute(self, **kwargs):
        return list(kwargs["Values"])

class SumNumbers(Command):
    inputs = {"InFieldName": params.ResultParameter(params.ListParameter(params.NumberParameter()))}  # wants numbers
    output = params.NumberParameter()
    def execute(self, **kwargs):
        return sum(kwargs["InFieldName"].result)

class Count(Command):
    inputs = {"InFieldName": params.ResultParameter(params.DataParameter())}
    output = params.NumberParameter()                            # a number
    def execute(self, **kwargs):
        return int(kwargs["InFieldName"].result.count())

class OpenFile(Command):
    inputs = {"Where": params.ResultParameter(params.PathParameter())}                                # wants a path
    output = params.BooleanParameter()
    def execute(self, **kwargs):
        return kwargs["Where"].result.endswith(".csv")
''', lib.__dict__)

LIBS = EEMS_CSV_LIBRARIES + ("c12_custom_lib",)
for title, tail in (
    ("list of strings -> consumer declaring a list of numbers", "N = Names(Values = [x, y])\nS = SumNumbers(InFieldName = N)"),
    ("number -> consumer declaring a path", "N = Count(InFieldName = A)\nO = OpenFile(Where = N)"),
    ("control: data -> consumer declaring a list of numbers", "S = SumNumbers(InFieldName = A)"),
):
    wd = tempfile.mkdtemp()
    with open(os.path.join(wd, "in.csv"), "w") as f:
        f.write("a\n1\n2\n3\n")
    src = "A = EEMSRead(InFileName = in.csv, InFieldName = a)\nW = EEMSWrite(OutFileName = out.csv, OutFieldNames = [A])\n" + tail
    try:
        Program.from_source(src, LIBS, wd).run()
        outcome = "accepted"
    except Exception as exc:
        outcome = "rejected with %s: %s" % (type(exc).__name__, str(exc).split("\n")[0][:110])
    print("%s\n    %s\n    out.csv written: %s" % (title, outcome, os.path.exists(os.path.join(wd, "out.csv"))))
    shutil.rmtree(wd)

print()
print("The property demands: a referenced result that does not have the declared output kind is rejected with")
print("ResultTypeNotValid naming the result, before anything executes (as in the control), so out.csv is not written.")
