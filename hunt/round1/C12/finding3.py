"""C12 finding 3: the documented ways of running a command other than Program.run() (the `Command.result` attribute,
"Accessing this property will run the command", and `Command.run()`) skip the whole-model check. A model with a
reference to a result that does not exist is then rejected only after other commands executed and wrote output."""
import os, sys
sys.path.insert(0, os.getcwd())
import tempfile, shutil
import mpilot
assert mpilot.__file__.startswith("/tmp/wt/C12/"), mpilot.__file__
from mpilot.program import Program, EEMS_CSV_LIBRARIES

SRC = """A = EEMSRead(InFileName = in.csv, InFieldName = a)
W = EEMSWrite(OutFileName = out.csv, OutFieldNames = [A])
P = PrintVars(InFieldNames = [W, C], OutFileName = report.txt)
C = Copy(InFieldName = nosuch)
"""

executed = []


def trace(program):
    for command in program.commands.values():
        original = command.execute

        def execute(_original=original, _name=command.result_name, **kwargs):
            executed.append(_name)
            return _original(**kwargs)

        command.execute = execute


for how in ("Program.run()", "commands['P'].result", "commands['P'].run()"):
    wd = tempfile.mkdtemp()
    with open(os.path.join(wd, "in.csv"), "w") as f:
        f.write("a\n1\n2\n3\n")
    program = Program.from_source(SRC, EEMS_CSV_LIBRARIES, wd)
    trace(program)
    del executed[:]
    try:
        if how == "Program.run()":
            program.run()
        elif how.endswith(".result"):
            program.commands["P"].result
        else:
            program.commands["P"].run()
        outcome = "accepted"
    except Exception as exc:
        outcome = "rejected with %s (%s)" % (type(exc).__name__, str(exc).split("\n")[0])
    print("%-22s %s\n%22s executed before the rejection: %s; files written: %s" % (
        how, outcome, "", executed, sorted(set(os.listdir(wd)) - {"in.csv"})))
    shutil.rmtree(wd)

print()
print("The property demands: the rejection (ResultDoesNotExist for 'nosuch') happens before any command executes, so")
print("nothing is executed and out.csv is not written, whichever documented entry point runs the model.")
