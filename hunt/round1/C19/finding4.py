"""C19 finding 4: a user command whose name is one of the EEMS 2.0 keywords (MAX, MIN, SUM, MEAN, AND, OR, NOT, READ, ...)
is in command_library but can never be reached from a command file: the name is rewritten to a built-in EEMS command
before the lookup, so it resolves to another library's implementation (or to nothing), and no duplicate is reported."""
import os, sys, tempfile, textwrap
sys.path.insert(0, os.getcwd())
import mpilot
assert mpilot.__file__.startswith(os.getcwd() + os.sep), mpilot.__file__
from mpilot.program import Program, EEMS_CSV_LIBRARIES

d = tempfile.mkdtemp()
sys.path.insert(1, d)
with open(os.path.join(d, "userops.py"), "w") as f:
    f.write(textwrap.dedent('''
        from mpilot import params
        from mpilot.commands import Command

        class Const(Command):
            output = params.NumberParameter()
            def execute(self, **kwargs):
                return 1

        class MAX(Command):
            inputs = {"InFieldNames": params.ListParameter(params.ResultParameter())}
            output = params.NumberParameter()
            def execute(self, **kwargs):
                return "userops.MAX ran"
    '''))

src = "a = Const()\nr = MAX(InFieldNames = [a])\n"

print("A) libraries = ('userops',)")
p = Program(libraries=("userops",))
print("   command_library:", {k: v.__module__ for k, v in sorted(p.command_library.items())})
try:
    p = Program.from_source(src, libraries=("userops",))
    print("   r is", type(p.commands["r"]).__module__ + "." + type(p.commands["r"]).__name__)
except Exception as e:
    print("   from_source:", type(e).__name__, "-", str(e).splitlines()[0])
print("   property demands: MAX is a command of the only requested library, so the program can use it")

print("B) libraries = EEMS CSV + ('userops',)")
libs = EEMS_CSV_LIBRARIES + ("userops",)
p = Program.from_source(src, libraries=libs)   # no duplicate error
cls = type(p.commands["r"])
print("   command_library['MAX'] ->", p.command_library["MAX"].__module__ + "." + p.command_library["MAX"].__name__)
print("   'MAX' in the source     ->", cls.__module__ + "." + cls.__name__)
print("   property demands: the name MAX resolves to the implementation the requested libraries give for MAX (userops.MAX),")
print("   or, if two requested libraries both answer to that name, construction fails; instead a different library's class is used silently")
