"""C19 finding 5 (command-line tool): the LIBRARY argument is compared with the one string "eems-csv"; every other value
-- a typo, another spelling, the empty string, the name of a library that does not exist -- silently selects the NetCDF
libraries, so EEMSRead/EEMSWrite resolve to the NetCDF implementations although nothing of the sort was requested."""
import os, subprocess, sys, tempfile
sys.path.insert(0, os.getcwd())
import mpilot
assert mpilot.__file__.startswith(os.getcwd() + os.sep), mpilot.__file__

d = tempfile.mkdtemp()
with open(os.path.join(d, "in.csv"), "w") as f:
    f.write("a,b\n1,2\n3,4\n")
with open(os.path.join(d, "model.mpt"), "w") as f:
    f.write('a = EEMSRead(InFileName = "in.csv", InFieldName = "a")\n')

# a tiny wrapper around the real entry point that reports which implementation EEMSRead resolved to
wrapper = (
    "import sys; sys.path.insert(0, %r)\n"
    "import mpilot.program as P\n"
    "orig = P.Program.from_source.__func__\n"
    "def spy(cls, *a, **k):\n"
    "    p = orig(cls, *a, **k)\n"
    "    sys.stderr.write('   libraries=%%s\\n   EEMSRead -> %%s\\n' %% ([l.rsplit('.', 1)[1] for l in k['libraries']], p.command_library['EEMSRead'].__module__))\n"
    "    return p\n"
    "P.Program.from_source = classmethod(spy)\n"
    "from mpilot.cli.mpilot import main; main()\n" % os.getcwd()
)
for kw in ("eems-csv", "eems-netcdf", "EEMS-CSV", "eems_csv", "csv", "", "no.such.library"):
    r = subprocess.run([sys.executable, "-c", wrapper, kw, os.path.join(d, "model.mpt")], capture_output=True, text=True)
    err = [l for l in r.stderr.splitlines() if l.strip()]
    print("mpilot %r model.mpt -> exit %d" % (kw, r.returncode))
    print("\n".join(err[:2] + [("   " + l) for l in err[2:4]]))
print("property demands: the commands come from the libraries that were requested; a request that names no known library")
print("set must be refused, not answered with the NetCDF implementations")
