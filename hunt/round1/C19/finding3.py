"""C19 finding 3: a Program construction that FAILS while a library module is being executed leaves the classes of the
half-executed module in the registry.  After the cause is removed, the same request succeeds, but the name resolves to
the class of the abandoned module object (whose globals stop at the point of failure), not to the class of the library
as it is now loaded.  (Root: the first-registration-wins rule of CommandMeta; related to the recorded 're-defined class'
item, but here no one re-defines anything: the history is merely one failed construction.)"""
import os, sys, tempfile, textwrap
sys.path.insert(0, os.getcwd())
import mpilot
assert mpilot.__file__.startswith(os.getcwd() + os.sep), mpilot.__file__
from mpilot.program import Program

d = tempfile.mkdtemp()
sys.path.insert(1, d)
with open(os.path.join(d, "needsfile.py"), "w") as f:
    f.write(textwrap.dedent('''
        import os
        from mpilot.commands import Command

        class Lookup(Command):
            def execute(self, **kwargs):
                return TABLE["answer"]

        # the library reads a table when it is imported; the file is not there yet on the first attempt
        with open(os.path.join(os.path.dirname(__file__), "table.txt")) as f:
            TABLE = {"answer": f.read().strip()}
    '''))

def attempt():
    p = Program(libraries=("needsfile",))
    p.add_command(p.find_command_class("Lookup"), "r", {})
    p.run()
    return p.commands["r"].result

try:
    attempt()
except Exception as e:
    print("1st construction:", type(e).__name__, "-", str(e)[:80])

with open(os.path.join(d, "table.txt"), "w") as f:      # the repair
    f.write("42\n")

try:
    print("2nd construction, run ->", attempt())
except Exception as e:
    print("2nd construction succeeds, but run:", type(e).__name__, "-", str(e).splitlines()[0])
import needsfile
p = Program(libraries=("needsfile",))
print("command_library['Lookup'] is needsfile.Lookup:", p.command_library["Lookup"] is needsfile.Lookup,
      "| needsfile.Lookup works:", needsfile.Lookup("x").execute())
print("property demands: what Lookup resolves to depends on the requested library only -- in a fresh process the same")
print("request (with table.txt present) runs and gives 42; here an earlier failed construction decides otherwise")
