"""C19 finding 2: Program constructions running in different threads disturb one another through the process-wide registry.
 A) threads that construct Programs for DIFFERENT, unrelated libraries: constructions die with
    "RuntimeError: Set changed size during iteration" (default thread switch interval);
 B) threads that construct their first Program for the SAME not-yet-loaded library: a command can get registered twice
    (check-then-add in CommandMeta.__new__), and from then on every Program requesting that library fails with a spurious
    "duplicated" error for the rest of the process (made likelier here with a small switch interval).
Timing dependent; every trial uses brand-new libraries."""
import collections, importlib, os, sys, tempfile, threading
sys.path.insert(0, os.getcwd())
import mpilot
assert mpilot.__file__.startswith(os.getcwd() + os.sep), mpilot.__file__
from mpilot.program import Program
from mpilot.commands import Command

d = tempfile.mkdtemp()
sys.path.insert(1, d)
N_THREADS, N_CLASSES = 8, 40

def make_lib(lib):
    os.mkdir(os.path.join(d, lib))
    open(os.path.join(d, lib, "__init__.py"), "w").close()
    with open(os.path.join(d, lib, "cmds.py"), "w") as f:
        f.write("from mpilot.commands import Command\n")
        for k in range(N_CLASSES):
            f.write("class C%d(Command):\n    def execute(self, **kw):\n        return %d\n" % (k, k))

def construct_concurrently(libs):
    importlib.invalidate_caches()
    out = collections.Counter()
    bar = threading.Barrier(len(libs))
    def work(lib):
        bar.wait()
        try:
            p = Program(libraries=(lib,))
            out["ok (%d commands)" % len(p.command_library)] += 1
        except Exception as e:
            out["%s: %s" % (type(e).__name__, str(e)[:90])] += 1
    ts = [threading.Thread(target=work, args=(lib,)) for lib in libs]
    [t.start() for t in ts]; [t.join() for t in ts]
    return out

print("A) %d threads, each Program(libraries=(<its own library>,)), default switch interval" % N_THREADS)
for i in range(100):
    libs = ["libA%d_%d" % (i, j) for j in range(N_THREADS)]
    for lib in libs:
        make_lib(lib)
    out = construct_concurrently(libs)
    if any(not k.startswith("ok") for k in out):
        print("   trial %d:" % i)
        for k, v in out.items():
            print("      %d x %s" % (v, k))
        break
else:
    print("   not hit in 100 trials (timing dependent)")
print("   property demands: every construction succeeds with the %d commands of its own library; other libraries being" % N_CLASSES)
print("   loaded for other programs in the process must not matter")

print("B) %d threads, all Program(libraries=(<the same new library>,)), switch interval 1e-6" % N_THREADS)
sys.setswitchinterval(1e-6)
for i in range(600):
    lib = "libB%d" % i
    make_lib(lib)
    out = construct_concurrently([lib] * N_THREADS)
    n = collections.Counter(c.command.name for c in Command.get_commands() if c.module.startswith(lib + "."))
    double = {k: v for k, v in n.items() if v > 1}
    if double:
        print("   trial %d, library %s:" % (i, lib))
        for k, v in out.items():
            print("      %d x %s" % (v, k))
        print("      registered more than once:", double)
        sys.setswitchinterval(0.005)
        try:
            Program(libraries=(lib,))
            print("      afterwards, single-threaded, same request: works")
        except Exception as e:
            print("      afterwards, single-threaded, same request:", type(e).__name__, str(e)[:100])
        break
else:
    print("   not hit in 600 trials (timing dependent)")
print("   property demands: the library defines each name once, so no duplicate error, now or later")
