"""C19 finding 1: command classes created with type()/types.new_class are filed under "mpilot.commands",
not under the library that defines them."""
import os, sys, tempfile, textwrap
sys.path.insert(0, os.getcwd())
import mpilot
assert mpilot.__file__.startswith(os.getcwd() + os.sep), mpilot.__file__
from mpilot.program import Program

d = tempfile.mkdtemp()
sys.path.insert(1, d)
for lib in ("factory_a", "factory_b"):
    with open(os.path.join(d, lib + ".py"), "w") as f:
        f.write(textwrap.dedent('''
            from mpilot.commands import Command

            def make(name, value):          # a command factory: a perfectly ordinary way to define many similar commands
                def execute(self, **kwargs):
                    return value
                return type(name, (Command,), {"execute": execute})

            Answer = make("Answer", "%s.Answer")

            class Static_%s(Command):       # a command written with a class statement, for comparison
                def execute(self, **kwargs):
                    return "static"
        ''' % (lib, lib)))

def lib_of(p):
    return {k: v.__module__ for k, v in sorted(p.command_library.items())}

print("1) fresh process, Program(libraries=('mpilot.commands',)):")
print("   ", lib_of(Program(libraries=("mpilot.commands",))))

print("2) Program(libraries=('factory_a',)) -- factory_a defines Answer and Static_factory_a:")
pa = Program(libraries=("factory_a",))
print("   ", lib_of(pa))
print("    property demands: Answer offered (the requested library defines it); got:", "Answer" in pa.command_library)

print("3) Program(libraries=('factory_a', 'factory_b')) -- both define a command named Answer:")
try:
    pab = Program(libraries=("factory_a", "factory_b"))
    print("    constructed:", lib_of(pab))
except Exception as e:
    print("    ", type(e).__name__, e)
print("    property demands: construction fails (Answer is defined by both requested libraries)")

print("4) same request as 1), later in the same process:")
p = Program(libraries=("mpilot.commands",))
print("   ", lib_of(p))
import factory_a, factory_b
print("    Answer is factory_a's:", p.command_library["Answer"] is factory_a.Answer,
      "| factory_b's:", p.command_library["Answer"] is factory_b.Answer,
      "| factory_b.Answer registered at all:", any(i.command is factory_b.Answer for i in p.command_library["Answer"].get_commands()))
print("    property demands: the same answer as in 1) -- the lookup must not depend on libraries loaded earlier for other programs")
print("    __module__ of the factory-made classes:", factory_a.Answer.__module__, factory_b.Answer.__module__)
