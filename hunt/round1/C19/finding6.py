"""C19 finding 6: Program iterates `libraries` twice (once to load, once inside the filter).  A one-shot iterable
(generator, map, filter, iterator, csv/file reader ...) is loaded completely but yields an EMPTY command library, silently;
the same names as a tuple give the commands."""
import os, sys
sys.path.insert(0, os.getcwd())
import mpilot
assert mpilot.__file__.startswith(os.getcwd() + os.sep), mpilot.__file__
from mpilot.program import Program, EEMS_CSV_LIBRARIES

names = " mpilot.libraries.eems.basic, mpilot.libraries.eems.csv ,mpilot.libraries.eems.fuzzy"   # e.g. from a config file
as_tuple = tuple(s.strip() for s in names.split(","))
print("tuple     :", len(Program(libraries=as_tuple).command_library), "commands")
print("generator :", len(Program(libraries=(s.strip() for s in names.split(","))).command_library), "commands")
print("map       :", len(Program(libraries=map(str.strip, names.split(","))).command_library), "commands")
print("iter      :", len(Program(libraries=iter(EEMS_CSV_LIBRARIES)).command_library), "commands")
try:
    Program.from_source("a = Sum(InFieldNames = [b, c])", libraries=map(str.strip, names.split(",")))
except Exception as e:
    print("from_source with map():", type(e).__name__, "-", str(e).splitlines()[0])
print("property demands: the commands are determined by the libraries requested -- the same set of names, the same commands")
print("(or a refusal of the argument), not an empty library after all three modules were imported")
