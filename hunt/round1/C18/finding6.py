"""C18 finding 6: DataType = Integer truncates a float32 variable but rounds a float64 variable."""
import os, sys
sys.path.insert(0, os.getcwd())
import tempfile, warnings
import numpy
from netCDF4 import Dataset
import mpilot
assert mpilot.__file__.startswith(os.getcwd() + os.sep), mpilot.__file__
from mpilot.commands import Command
from mpilot.arguments import Argument
from mpilot.libraries.eems.netcdf.io import EEMSRead, EEMSWrite

warnings.simplefilter("ignore")
d = tempfile.mkdtemp()
tpl = d + "/template.nc"
with Dataset(tpl, "w") as ds:
    ds.createDimension("x", 6)
    ds.createVariable("x", "f8", ("x",))[:] = numpy.arange(6)
    ds.createVariable("t", "f8", ("x",))[:] = numpy.zeros(6)

print(EEMSRead.__doc__)
values = [0.6, 1.7, 2.9, -3.8, 4.25, 1e6 + 0.75]
for dtype in ("float64", "float32"):
    c = Command("A")
    c.is_finished = True
    c._result = numpy.ma.masked_array(numpy.array(values, dtype=dtype))
    EEMSWrite("W", [Argument("OutFileName", d + "/out.nc"), Argument("OutFieldNames", [c]),
                    Argument("DimensionFileName", tpl), Argument("DimensionFieldName", "t")]).run()
    for data_type in ("Integer", "Positive Integer"):
        if data_type.startswith("Positive"):
            with Dataset(d + "/out.nc", "a") as ds:
                ds["A"][3] = 3.8
        r = EEMSRead("R", [Argument("InFileName", d + "/out.nc"), Argument("InFieldName", "A"), Argument("DataType", data_type)])
        r.run()
        print("%s written, read with DataType = %-16s -> %s" % (dtype, data_type, r._result))
print()
print("property demands: the same written values come back as the same values whatever the element type of the")
print("variable; the reader says it converts floats to the NEAREST int, which it does for float64 only")
print("(io.py tests numpy.issubdtype(data.dtype, numpy.float64), false for float32, so the cast truncates).")
