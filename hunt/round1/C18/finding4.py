"""C18 finding 4: a MissingValue of NaN is accepted and then ignored (Float) or ends in an internal error (Integer)."""
import os, sys
sys.path.insert(0, os.getcwd())
import tempfile, warnings
import numpy
from netCDF4 import Dataset
import mpilot
assert mpilot.__file__.startswith(os.getcwd() + os.sep), mpilot.__file__
from mpilot.program import Program, EEMS_NETCDF_LIBRARIES

warnings.simplefilter("ignore")
d = tempfile.mkdtemp()
with Dataset(d + "/in.nc", "w") as ds:
    ds.createDimension("x", 4)
    ds.createVariable("x", "f8", ("x",))[:] = [1, 2, 3, 4]
    # no _FillValue / missing_value attribute: NaN is only a convention of the producer, hence MissingValue
    ds.createVariable("v", "f8", ("x",))[:] = [1.0, numpy.nan, numpy.inf, 4.0]

for missing, data_type in (("inf", "Float"), ("nan", "Float"), ("nan", '"Positive Float"'), ("nan", "Integer")):
    source = 'A = EEMSRead(InFileName = "in.nc", InFieldName = v, MissingValue = %s, DataType = %s)' % (missing, data_type)
    print(source)
    try:
        program = Program.from_source(source, libraries=EEMS_NETCDF_LIBRARIES, working_dir=d)
        program.run()
        r = program.commands["A"].result
        print("  ->", r, " missing:", numpy.ma.getmaskarray(r).astype(int))
    except Exception as e:
        print("  -> %s: %s" % (type(e).__name__, str(e).split("\n")[0]))
print()
print("property demands: the cells equal to the missing value are missing in the array returned, for every")
print("fill value and every combination of the read parameters: with MissingValue = nan the NaN cell must be")
print("missing ([1.0 -- inf 4.0]), as the inf cell is with MissingValue = inf; an internal error is not an answer.")
