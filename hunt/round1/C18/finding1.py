"""C18 finding 1: EEMSWrite never returns when no free fill value is found by its search loop."""
import os, sys
sys.path.insert(0, os.getcwd())
import signal, tempfile, time, warnings
import numpy
from netCDF4 import Dataset
import mpilot
assert mpilot.__file__.startswith(os.getcwd() + os.sep), mpilot.__file__
from mpilot.program import Program, EEMS_NETCDF_LIBRARIES
from mpilot.commands import Command
from mpilot.arguments import Argument
from mpilot.libraries.eems.netcdf.io import EEMSWrite

warnings.simplefilter("ignore")
d = tempfile.mkdtemp()


class Hang(BaseException):
    pass


def on_alarm(*_):
    raise Hang()


signal.signal(signal.SIGALRM, on_alarm)

# --- (a) whole thing from a command file: a legal input whose _FillValue is +inf, and a sum that overflows to +inf
with Dataset(d + "/in.nc", "w") as ds:
    ds.createDimension("y", 2)
    ds.createDimension("x", 2)
    ds.createVariable("y", "f8", ("y",))[:] = [1, 2]
    ds.createVariable("x", "f8", ("x",))[:] = [1, 2]
    v = ds.createVariable("v", "f8", ("y", "x"), fill_value=numpy.inf)
    v[:] = numpy.ma.masked_array([[1e308, 2.0], [3.0, 4.0]], mask=[[0, 0], [0, 1]])

source = """
A = EEMSRead(InFileName = "in.nc", InFieldName = v)
B = Sum(InFieldNames = [A, A])
W = EEMSWrite(OutFileName = "out.nc", OutFieldNames = [B], DimensionFileName = "in.nc", DimensionFieldName = v)
"""
program = Program.from_source(source, libraries=EEMS_NETCDF_LIBRARIES, working_dir=d)
signal.alarm(10)
try:
    program.run()
    print("(a) write finished")
except Hang:
    print("(a) EEMSWrite still running after 10 s (it never returns): result B =")
    print("   ", repr(program.commands["B"]._result).replace("\n", "\n    "))
finally:
    signal.alarm(0)
print("    property demands: B (one +inf cell, one missing cell, fill value +inf) is written and reads back the same\n")


def result(name, arr):
    c = Command(name)
    c.is_finished = True
    c._result = arr
    return c


def template(path, shape):
    with Dataset(path, "w") as ds:
        for n, s in zip(("y", "x"), shape):
            ds.createDimension(n, s)
            ds.createVariable(n, "f8", (n,))[:] = numpy.arange(s)
        ds.createVariable("tpl", "f8", ("y", "x"))[:] = numpy.zeros(shape)


def write(out, results, tpl):
    EEMSWrite(
        "W",
        [
            Argument("OutFileName", out),
            Argument("OutFieldNames", results),
            Argument("DimensionFileName", tpl),
            Argument("DimensionFieldName", "tpl"),
        ],
    ).run()


# --- (b) a byte grid that uses all 256 values (nothing missing at all)
template(d + "/t16.nc", (16, 16))
for dt in ("u1", "i1"):
    a = numpy.ma.masked_array(numpy.arange(256).astype(dt).reshape(16, 16))
    signal.alarm(5)
    try:
        write(d + "/o.nc", [result("A", a)], d + "/t16.nc")
        print("(b)", dt, "write finished")
    except Hang:
        print("(b)", dt, "grid holding all 256 values, no missing cell: EEMSWrite still running after 5 s (never returns)")
    finally:
        signal.alarm(0)
print("    property demands: the grid is written and reads back the same (no cell is missing, no fill value is needed)\n")

# --- (c) an integer grid of consecutive cell ids: one full scan of the grid per id above 999999
for rows in (1000, 1010, 1020):
    template(d + "/tid.nc", (rows, 1000))
    a = numpy.ma.masked_array(numpy.arange(rows * 1000).reshape(rows, 1000))
    t0 = time.time()
    write(d + "/o.nc", [result("ID", a)], d + "/tid.nc")
    print("(c) id grid %d x 1000: EEMSWrite took %.1f s" % (rows, time.time() - t0))
print("    (time grows with cells x (cells - 999999): a 2000 x 2000 id grid needs about 3e6 full scans, i.e. hours)")
