"""C18 finding 5: EEMSWrite fails with an internal error for legal templates / result names:
(a) a template dimension that has no coordinate variable, (b) a result named like a template dimension."""
import os, sys
sys.path.insert(0, os.getcwd())
import tempfile, warnings
import numpy
from netCDF4 import Dataset
import mpilot
assert mpilot.__file__.startswith(os.getcwd() + os.sep), mpilot.__file__
from mpilot.program import Program, EEMS_NETCDF_LIBRARIES

warnings.simplefilter("ignore")
d = tempfile.mkdtemp()

# (a) "x" has a coordinate variable, "y" has none (legal NetCDF and CF: coordinate variables are optional)
with Dataset(d + "/a.nc", "w") as ds:
    ds.createDimension("y", 3)
    ds.createDimension("x", 4)
    ds.createVariable("x", "f8", ("x",))[:] = [1, 2, 3, 4]
    ds.createVariable("elev", "f8", ("y", "x"))[:] = numpy.arange(12.0).reshape(3, 4)
# (b) an ordinary template; the variable that is read (and hence the result) is called "x" in the program
with Dataset(d + "/b.nc", "w") as ds:
    ds.createDimension("y", 3)
    ds.createDimension("x", 4)
    ds.createVariable("y", "f8", ("y",))[:] = [1, 2, 3]
    ds.createVariable("x", "f8", ("x",))[:] = [1, 2, 3, 4]
    ds.createVariable("elev", "f8", ("y", "x"))[:] = numpy.arange(12.0).reshape(3, 4)

programs = {
    "(a) dimension y without a coordinate variable": """
E = EEMSRead(InFileName = "a.nc", InFieldName = elev)
W = EEMSWrite(OutFileName = "out_a.nc", OutFieldNames = [E], DimensionFileName = "a.nc", DimensionFieldName = elev)
""",
    "(b) result named x, like a dimension of the template": """
x = EEMSRead(InFileName = "b.nc", InFieldName = elev)
W = EEMSWrite(OutFileName = "out_b.nc", OutFieldNames = [x], DimensionFileName = "b.nc", DimensionFieldName = elev)
""",
}
for label, source in programs.items():
    print(label)
    try:
        program = Program.from_source(source, libraries=EEMS_NETCDF_LIBRARIES, working_dir=d)
        program.run()
        print("  -> written")
    except Exception as e:
        lines = str(e).split("\n")
        print("  -> %s: %s" % (type(e).__name__, lines[0]))
        print("     " + [line for line in lines if line.strip()][-1].strip())
print()
print("property demands: for every grid/template and every set of results the write succeeds and reads back the")
print("same (dimension variables that exist are copied); neither case is an error of the user that mpilot reports,")
print("both end in UnexpectedError (an IndexError / RuntimeError from netCDF4) and leave a truncated output file.")
