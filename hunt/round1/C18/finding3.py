"""C18 finding 3: the documented optional read parameter for the missing value, MissingVal, is refused."""
import os, sys
sys.path.insert(0, os.getcwd())
import re, tempfile, warnings
import numpy
from netCDF4 import Dataset
import mpilot
assert mpilot.__file__.startswith(os.getcwd() + os.sep), mpilot.__file__
from mpilot.program import Program, EEMS_NETCDF_LIBRARIES

warnings.simplefilter("ignore")
doc = open(os.path.join(os.getcwd(), "docs", "user", "lib-eems-netcdf.rst")).read()
print("documented signature :", re.search(r"function:: (EEMSRead\(.*\))", doc).group(1))
print("documented parameter :", re.search(r":param (Missing\w*):", doc).group(1))

d = tempfile.mkdtemp()
with Dataset(d + "/in.nc", "w") as ds:
    ds.createDimension("x", 4)
    ds.createVariable("x", "f8", ("x",))[:] = [1, 2, 3, 4]
    ds.createVariable("v", "f8", ("x",))[:] = [1.0, -9999.0, 3.0, 4.0]

for source in (
    'A = EEMSRead(InFileName = "in.nc", InFieldName = v, MissingVal = -9999)',      # as documented (and as in eems-csv)
    'READ(InFileName = "in.nc", InFieldName = v, MissingVal = -9999)',               # EEMS 2.0 spelling of the same
    'A = EEMSRead(InFileName = "in.nc", InFieldName = v, MissingValue = -9999)',    # undocumented name the code uses
):
    print()
    print(source)
    try:
        program = Program.from_source(source, libraries=EEMS_NETCDF_LIBRARIES, working_dir=d)
        program.run()
        print("  ->", list(program.commands.values())[0].result)
    except Exception as e:
        print("  -> %s: %s" % (type(e).__name__, str(e).split("\n")[0]))
print()
print("property demands: reading honours the DOCUMENTED optional parameters, among them the missing value:")
print("the first two programs must return [1.0 -- 3.0 4.0].")
