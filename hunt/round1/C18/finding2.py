"""C18 finding 2: a result whose shape is not the template variable's shape is silently broadcast by EEMSWrite."""
import os, sys
sys.path.insert(0, os.getcwd())
import tempfile, warnings
import numpy
from netCDF4 import Dataset
import mpilot
assert mpilot.__file__.startswith(os.getcwd() + os.sep), mpilot.__file__
from mpilot.commands import Command
from mpilot.arguments import Argument
from mpilot.libraries.eems.netcdf.io import EEMSRead, EEMSWrite

warnings.simplefilter("ignore")
d = tempfile.mkdtemp()
tpl = d + "/template.nc"
with Dataset(tpl, "w") as ds:
    ds.createDimension("y", 3)
    ds.createDimension("x", 4)
    ds.createVariable("y", "f8", ("y",))[:] = [10, 20, 30]
    ds.createVariable("x", "f8", ("x",))[:] = [1, 2, 3, 4]
    ds.createVariable("elev", "f8", ("y", "x"))[:] = numpy.zeros((3, 4))


def result(name, arr):
    c = Command(name)
    c.is_finished = True
    c._result = arr
    return c


def roundtrip(arrays):
    out = d + "/out.nc"
    results = [result("R%d" % i, a) for i, a in enumerate(arrays)]
    EEMSWrite(
        "W",
        [
            Argument("OutFileName", out),
            Argument("OutFieldNames", results),
            Argument("DimensionFileName", tpl),
            Argument("DimensionFieldName", "elev"),
        ],
    ).run()
    back = []
    for r in results:
        read = EEMSRead("R", [Argument("InFileName", out), Argument("InFieldName", r.result_name)])
        read.run()
        back.append(read._result)
    return back


for shape in [(4,), (1, 4), (3, 1), (1,), (), (1, 3, 4)]:
    a = numpy.ma.masked_array(numpy.arange(int(numpy.prod(shape)), dtype=float).reshape(shape) + 1, mask=False)
    if a.size > 1:
        a[(Ellipsis, 0)] = numpy.ma.masked
    try:
        (b,) = roundtrip([a])
        print("written shape %-9s -> write succeeded, read back shape %s, %d missing cells (written: %d)" % (
            shape, b.shape, numpy.ma.getmaskarray(b).sum(), numpy.ma.getmaskarray(a).sum()))
    except Exception as e:
        print("written shape %-9s -> %s" % (shape, type(e).__name__))

# two results written together, both of shape (4,): validate_array_shapes is satisfied, the file holds 3 x 4 grids
a = numpy.ma.masked_array([1.0, 2.0, 3.0, 4.0], mask=[1, 0, 0, 0])
b = numpy.ma.masked_array([5, 6, 7, 8], mask=[0, 0, 0, 1])
ra, rb = roundtrip([a, b])
print("two (4,) results ->", ra.shape, rb.shape)
print(ra)
print()
print("property demands: reading back returns arrays of the SAME SHAPE (and missing exactly where a written result")
print("was missing); a result that does not fit the template's variable has to be refused, not replicated.")
