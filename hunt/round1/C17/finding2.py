import os, sys, tempfile
sys.path.insert(0, os.getcwd())
import numpy
import mpilot
assert mpilot.__file__.startswith("/tmp/wt/C17/"), mpilot.__file__
from mpilot.commands import Command, Argument
from mpilot.program import Program
from mpilot.libraries.eems.csv.io import EEMSRead, EEMSWrite

TMP = tempfile.mkdtemp()


def put(name, data, **kw):
    path = os.path.join(TMP, name)
    with open(path, "wb" if isinstance(data, bytes) else "w", **kw) as f:
        f.write(data)
    return path


def read(path, field, **kw):
    args = [Argument("InFileName", path, 1), Argument("InFieldName", field, 1)]
    args += [Argument(k, v, 1) for k, v in kw.items()]
    return EEMSRead("R", args, Program(), 1).result


def result(name, arr):
    c = Command(name)
    c.is_finished = True
    c._result = arr
    return c


def write(path, commands):
    args = [Argument("OutFileName", path, 1), Argument("OutFieldNames", commands, 1)]
    return EEMSWrite("W", args, Program(), 1).result


def attempt(f):
    try:
        return f()
    except Exception as e:
        return "%s: %s" % (type(e).__name__, str(e).split("\n")[0])

# Finding 2: DataType=Integer does not return the column's numeric values: fractions are silently truncated,
# large finite doubles abort with a raw OverflowError (UnexpectedError, no file line)
path = put("t.csv", "a,b\n3.7,1e19\n-0.9,5\n5e-324,5\n2.9999999999999996,5\n")
r = read(path, "a", DataType="Integer")
print("file column a        : 3.7, -0.9, 5e-324, 2.9999999999999996")
print("read as Integer      :", list(r.data), r.dtype)
print("  property demands   : the numeric values of the cells (or a reported InvalidDataFile with the line); got silently different numbers")
print()
print("file column b        : 1e19, 5, 5, 5   (all finite, integer-valued doubles)")
print("read as Integer      :", attempt(lambda: read(path, "b", DataType="Integer")))
print("  property demands   : values, or InvalidDataFile naming line 2; got UnexpectedError wrapping OverflowError")
