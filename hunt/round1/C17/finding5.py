import os, sys, tempfile
sys.path.insert(0, os.getcwd())
import numpy
import mpilot
assert mpilot.__file__.startswith("/tmp/wt/C17/"), mpilot.__file__
from mpilot.commands import Command, Argument
from mpilot.program import Program
from mpilot.libraries.eems.csv.io import EEMSRead, EEMSWrite

TMP = tempfile.mkdtemp()


def put(name, data, **kw):
    path = os.path.join(TMP, name)
    with open(path, "wb" if isinstance(data, bytes) else "w", **kw) as f:
        f.write(data)
    return path


def read(path, field, **kw):
    args = [Argument("InFileName", path, 1), Argument("InFieldName", field, 1)]
    args += [Argument(k, v, 1) for k, v in kw.items()]
    return EEMSRead("R", args, Program(), 1).result


def result(name, arr):
    c = Command(name)
    c.is_finished = True
    c._result = arr
    return c


def write(path, commands):
    args = [Argument("OutFileName", path, 1), Argument("OutFieldNames", commands, 1)]
    return EEMSWrite("W", args, Program(), 1).result


def attempt(f):
    try:
        return f()
    except Exception as e:
        return "%s: %s" % (type(e).__name__, str(e).split("\n")[0])

# Finding 5: a UTF-8 byte-order mark (what Excel's "CSV UTF-8" writes) hides the first column
path = put("bom.csv", b"\xef\xbb\xbfa,b\n1,2\n3,4\n")
print("column b :", attempt(lambda: list(read(path, "b").data)))
print("column a :", attempt(lambda: list(read(path, "a").data)))
print("  property demands: [1.0, 3.0]; the header a is present, yet it is reported missing (it is read as '\\ufeffa')")
print("column '\\ufeffa' :", attempt(lambda: list(read(path, "\ufeffa").data)))
