import os, sys, tempfile
sys.path.insert(0, os.getcwd())
import numpy
import mpilot
assert mpilot.__file__.startswith("/tmp/wt/C17/"), mpilot.__file__
from mpilot.commands import Command, Argument
from mpilot.program import Program
from mpilot.libraries.eems.csv.io import EEMSRead, EEMSWrite

TMP = tempfile.mkdtemp()


def put(name, data, **kw):
    path = os.path.join(TMP, name)
    with open(path, "wb" if isinstance(data, bytes) else "w", **kw) as f:
        f.write(data)
    return path


def read(path, field, **kw):
    args = [Argument("InFileName", path, 1), Argument("InFieldName", field, 1)]
    args += [Argument(k, v, 1) for k, v in kw.items()]
    return EEMSRead("R", args, Program(), 1).result


def result(name, arr):
    c = Command(name)
    c.is_finished = True
    c._result = arr
    return c


def write(path, commands):
    args = [Argument("OutFileName", path, 1), Argument("OutFieldNames", commands, 1)]
    return EEMSWrite("W", args, Program(), 1).result


def attempt(f):
    try:
        return f()
    except Exception as e:
        return "%s: %s" % (type(e).__name__, str(e).split("\n")[0])

# Finding 3: a written Integer column is changed by a Float column next to it, and integers above 2**53
# never read back identically (the reader parses every cell through float()).
# Built only with library commands: two Integer reads, Multiply, Write, Read.
from mpilot.libraries.eems.basic import Multiply

src = put("in.csv", "x,y,f\n94906267,94906267,0.5\n3,4,1.5\n")
prog = Program()
X = EEMSRead("X", [Argument("InFileName", src, 1), Argument("InFieldName", "x", 1), Argument("DataType", "Integer", 1)], prog, 1)
Y = EEMSRead("Y", [Argument("InFileName", src, 1), Argument("InFieldName", "y", 1), Argument("DataType", "Integer", 1)], prog, 2)
F = EEMSRead("F", [Argument("InFileName", src, 1), Argument("InFieldName", "f", 1)], prog, 3)
P = Multiply("P", [Argument("InFieldNames", [X, Y], 4)], prog, 4)
print("P = x*y              :", list(P.result.data), P.result.dtype, "(exact: 94906267**2 = %d)" % 94906267 ** 2)

alone = os.path.join(TMP, "alone.csv")
both = os.path.join(TMP, "both.csv")
write(alone, [P])
write(both, [P, F])
print("written alone        :", repr(open(alone).read()))
print("written next to F    :", repr(open(both).read()))
print("  property demands   : the P cells do not depend on the other column; here 9007199515875289 became 9007199515875288.0 and 12 became 12.0")
for p in (alone, both):
    back = read(p, "P", DataType="Integer")
    print("read back (Integer)  :", list(back.data), "identical:", back.data.tobytes() == P.result.data.tobytes())
print("  property demands   : bit-identical values for all non-missing finite numbers, both element types")
