import os, sys, tempfile
sys.path.insert(0, os.getcwd())
import numpy
import mpilot
assert mpilot.__file__.startswith("/tmp/wt/C17/"), mpilot.__file__
from mpilot.commands import Command, Argument
from mpilot.program import Program
from mpilot.libraries.eems.csv.io import EEMSRead, EEMSWrite

TMP = tempfile.mkdtemp()


def put(name, data, **kw):
    path = os.path.join(TMP, name)
    with open(path, "wb" if isinstance(data, bytes) else "w", **kw) as f:
        f.write(data)
    return path


def read(path, field, **kw):
    args = [Argument("InFileName", path, 1), Argument("InFieldName", field, 1)]
    args += [Argument(k, v, 1) for k, v in kw.items()]
    return EEMSRead("R", args, Program(), 1).result


def result(name, arr):
    c = Command(name)
    c.is_finished = True
    c._result = arr
    return c


def write(path, commands):
    args = [Argument("OutFileName", path, 1), Argument("OutFieldNames", commands, 1)]
    return EEMSWrite("W", args, Program(), 1).result


def attempt(f):
    try:
        return f()
    except Exception as e:
        return "%s: %s" % (type(e).__name__, str(e).split("\n")[0])

# Finding 6: reading a clean numeric column fails because of what ANOTHER column holds
clean = put("clean.csv", "a,note\n1,x\n2,y\n")
print("baseline                         :", attempt(lambda: list(read(clean, "a").data)))
latin = put("latin.csv", "a,note\n1,caf\xe9\n2,y\n".encode("latin-1"))
print("note column holds a Latin-1 byte :", attempt(lambda: list(read(latin, "a").data)))
big = put("big.csv", "a,note\n1,%s\n2,y\n" % ("z" * 131073))
print("note column holds a 128 KiB cell :", attempt(lambda: list(read(big, "a").data)))
print("  property demands               : [1.0, 2.0] both times (column a is unaffected by other columns)")
print("  neither failure is an InvalidDataFile and neither names a file line")
