import os, sys, tempfile
sys.path.insert(0, os.getcwd())
import numpy
import mpilot
assert mpilot.__file__.startswith("/tmp/wt/C17/"), mpilot.__file__
from mpilot.commands import Command, Argument
from mpilot.program import Program
from mpilot.libraries.eems.csv.io import EEMSRead, EEMSWrite

TMP = tempfile.mkdtemp()


def put(name, data, **kw):
    path = os.path.join(TMP, name)
    with open(path, "wb" if isinstance(data, bytes) else "w", **kw) as f:
        f.write(data)
    return path


def read(path, field, **kw):
    args = [Argument("InFileName", path, 1), Argument("InFieldName", field, 1)]
    args += [Argument(k, v, 1) for k, v in kw.items()]
    return EEMSRead("R", args, Program(), 1).result


def result(name, arr):
    c = Command(name)
    c.is_finished = True
    c._result = arr
    return c


def write(path, commands):
    args = [Argument("OutFileName", path, 1), Argument("OutFieldNames", commands, 1)]
    return EEMSWrite("W", args, Program(), 1).result


def attempt(f):
    try:
        return f()
    except Exception as e:
        return "%s: %s" % (type(e).__name__, str(e).split("\n")[0])

# Finding 1: with DataType=Integer, cells that are NOT equal to the declared missing value are marked missing
path = put("t.csv", "a,b\n3.7,1\n3,2\n-3.2,3\n1,4\n")

r = read(path, "a", MissingVal=3, DataType="Integer")
print("file column a            : 3.7, 3, -3.2, 1")
print("MissingVal=3,  Integer   : mask =", list(r.mask))
print("  property demands       : mask = [False, True, False, False]  (only the cell equal to 3)")

r = read(path, "a", MissingVal=1.5, DataType="Integer")
print("MissingVal=1.5, Integer  : mask =", list(r.mask))
print("  property demands       : mask = [False, False, False, False] (no cell equals 1.5)")

r = read(path, "a", MissingVal=3, DataType="Float")
print("MissingVal=3,  Float     : mask =", list(r.mask), "(correct, for comparison)")

print("MissingVal=1e19, Integer, column b (1,2,3,4):", attempt(lambda: read(path, "b", MissingVal=1e19, DataType="Integer")))
print("  property demands       : [1 2 3 4] with nothing masked")
