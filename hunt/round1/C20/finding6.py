"""C20 finding 6: for the nested lists that the parser delivers, cleaning is not item-wise all the way down: an untyped
ListParameter unwraps the ListArgument wrappers of the first level only and returns a 'list' that still holds
ListArgument objects, and a key/value list inside a list reaches TupleParameter as parser nodes, which it turns to text."""
import os, sys
sys.path.insert(0, os.getcwd())
import mpilot
assert mpilot.__file__.startswith("/tmp/wt/C20"), mpilot.__file__
import numpy
from mpilot import params as P
from mpilot.arguments import Argument
from mpilot.commands import Command
from mpilot.program import Program

SEEN = {}
class Take(Command):
    inputs = {"Items": P.ListParameter(required=False), "Pairs": P.ListParameter(P.TupleParameter(), required=False),
              "Deep": P.ListParameter(P.ListParameter(P.ListParameter(P.NumberParameter())), required=False)}
    output = P.DataParameter()
    def execute(self, **kwargs):
        SEEN.update(kwargs)
        return numpy.ma.arange(2.0)

src = """T = Take(
    Items = [1, [2], [[3]], [[[4]]]],
    Deep = [[[3]]],
    Pairs = [[Color: "Blue"]]
)"""
prog = Program.from_source(src, libraries=("__main__",), working_dir="/tmp")
prog.run()
def wrappers(v, depth=0):
    if isinstance(v, Argument):
        return [(depth, type(v).__name__)] + wrappers(v.value, depth)
    if isinstance(v, (list, tuple)):
        return [w for x in v for w in wrappers(x, depth + 1)]
    return []
print("Items cleaned:", SEEN["Items"])
print("  parser wrapper objects left inside the cleaned list (depth, class):", wrappers(SEEN["Items"]))
print("Deep  cleaned (typed three levels, for comparison):", SEEN["Deep"], wrappers(SEEN["Deep"]))
print("Pairs cleaned:", SEEN["Pairs"])
again = Take.inputs["Items"].clean(SEEN["Items"], prog)
print("cleaning the cleaned Items again:", again)
print()
print("PROPERTY C20 demands: cleaning returns a value of the documented type, list items cleaned item-wise")
print("  (a nested list of values; key and value of a key/value list are the strings that were written).")
bad = len(wrappers(SEEN["Items"])) + sum("ExpressionNode" in v for d in SEEN["Pairs"] for v in d.values())
print("VIOLATED: %d wrapper/node objects survive in or leak into cleaned values" % bad if bad else "not violated")
