"""C20 finding 4: NumberParameter returns a bool for a bool: the cleaned 'number' is neither an integer nor a decimal,
although BooleanParameter in turn refuses 1.0/0.0 and the parser never makes a number of True/False."""
import os, sys
sys.path.insert(0, os.getcwd())
import mpilot
assert mpilot.__file__.startswith("/tmp/wt/C20"), mpilot.__file__
from mpilot import params as P
from mpilot.program import Program, EEMS_CSV_LIBRARIES
from mpilot.exceptions import MPilotError

p = Program(working_dir="/tmp")
num, lst, boo = P.NumberParameter(), P.ListParameter(P.NumberParameter()), P.BooleanParameter()
def show(label, fn):
    try:
        r = fn(); print("%-52s -> %r (%s)" % (label, r, type(r).__name__)); return r
    except MPilotError as e:
        print("%-52s -> raises %s" % (label, type(e).__name__)); return e
a = show("NumberParameter().clean(True)", lambda: num.clean(True, p))
b = show("NumberParameter().clean(False)", lambda: num.clean(False, p))
c = show("ListParameter(NumberParameter()).clean([True, 2])", lambda: lst.clean([True, 2], p))
show("NumberParameter().clean('True')   [what the parser delivers]", lambda: num.clean("True", p))
show("BooleanParameter().clean(1.0)     [the converse]", lambda: boo.clean(1.0, p))

# through the built-in library: thresholds given as booleans are accepted as numbers
import tempfile
wd = tempfile.mkdtemp()
open(os.path.join(wd, "d.csv"), "w").write("v\n0.0\n0.5\n1.0\n")
from mpilot.libraries.eems.csv.io import EEMSRead
from mpilot.libraries.eems.fuzzy import CvtToFuzzy
q = Program(libraries=EEMS_CSV_LIBRARIES, working_dir=wd)
q.add_command(EEMSRead, "v", {"InFileName": "d.csv", "InFieldName": "v"})
q.add_command(CvtToFuzzy, "F", {"InFieldName": "v", "TrueThreshold": True, "FalseThreshold": False})
show("CvtToFuzzy(TrueThreshold=True, FalseThreshold=False)", lambda: (q.run(), q.commands["F"].result)[1])
print()
print("PROPERTY C20 demands: cleaning returns a value of the documented type (integers stay integers and decimals decimals;")
print("  'Numbers may be integer or decimal values', docs/user/index.rst) or raises the parameter error.")
viol = [x for x in (a, b) if isinstance(x, bool)] + [x for x in (c if isinstance(c, list) else []) if isinstance(x, bool)]
print("VIOLATED: %d cleaned 'numbers' are bool objects" % len(viol) if viol else "not violated")
