"""C20 finding 3: TupleParameter and DataTypeParameter compare the raw value with == / in before looking at its type, so
a data array (what every EEMS command returns, and what DataParameter accepts) makes them raise ValueError instead of
the parameter error: directly, through ResultParameter(<that type>) on a finished command, and through Metadata."""
import os, sys, warnings
sys.path.insert(0, os.getcwd())
import mpilot
assert mpilot.__file__.startswith("/tmp/wt/C20"), mpilot.__file__
import numpy
from mpilot import params as P
from mpilot.commands import Command
from mpilot.program import Program
from mpilot.exceptions import MPilotError
warnings.simplefilter("ignore")

class Src(Command):
    inputs = {}
    output = P.DataParameter()
    def execute(self, **kwargs):
        return numpy.ma.arange(3.0)

bad = 0
def attempt(label, fn):
    global bad
    try:
        print("%-70s returns %r" % (label, fn()))
    except MPilotError as e:
        print("%-70s raises parameter error %s" % (label, type(e).__name__))
    except Exception as e:
        bad += 1
        print("%-70s raises %s: %s" % (label, type(e).__name__, str(e)[:50]))

p = Program(libraries=(), working_dir="/tmp")
p.add_command(Src, "A", {})
arr = numpy.arange(3)
attempt("TupleParameter().clean(array)", lambda: P.TupleParameter().clean(arr, p))
attempt("DataTypeParameter().clean(array)", lambda: P.DataTypeParameter().clean(arr, p))
attempt("NumberParameter().clean(array)   [for comparison]", lambda: P.NumberParameter().clean(arr, p))
attempt("BooleanParameter().clean(array)  [for comparison]", lambda: P.BooleanParameter().clean(arr, p))
for inner in (P.TupleParameter(), P.DataTypeParameter()):
    par = P.ResultParameter(inner)
    attempt("ResultParameter(%s()).clean('A'), A not run" % type(inner).__name__, lambda: par.clean("A", p))
p.commands["A"].run()
for inner in (P.TupleParameter(), P.DataTypeParameter()):
    par = P.ResultParameter(inner)
    attempt("ResultParameter(%s()).clean('A'), A finished" % type(inner).__name__, lambda: par.clean("A", p))
q = Program(libraries=(), working_dir="/tmp")
q.add_command(Src, "A", {"Metadata": arr})
attempt("Program.run() with Metadata = array (every command has Metadata)", q.run)
attempt("command.metadata with Metadata = array", lambda: q.commands["A"].metadata)
print()
print("PROPERTY C20 demands: cleaning either returns a value of the documented type or raises the parameter error.")
print("VIOLATED %d times (ValueError from numpy instead of ParameterNotValid)" % bad if bad else "not violated")
