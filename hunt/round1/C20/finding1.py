"""C20 finding 1: ResultParameter.clean of the SAME raw value gives a command before the referenced command has run
and raises after it has run (and the other way round): the two cleanings of one run (program.py:269, commands.py:127)
disagree.  Built-in NetCDF library, then the configuration of the developer guide."""
import os, sys, tempfile
sys.path.insert(0, os.getcwd())
import mpilot
assert mpilot.__file__.startswith("/tmp/wt/C20"), mpilot.__file__
import numpy
from netCDF4 import Dataset
from mpilot import params
from mpilot.commands import Command
from mpilot.program import Program, EEMS_NETCDF_LIBRARIES
from mpilot.exceptions import MPilotError

def attempt(label, fn):
    try:
        r = fn()
        print("   %-46s -> returns %s" % (label, type(r).__name__)); return ("ok", r)
    except MPilotError as e:
        print("   %-46s -> raises %s: %s" % (label, type(e).__name__, str(e).splitlines()[0])); return ("err", type(e).__name__)

print("(a) built-in NetCDF library, a legal file with two scalar (0-dimensional) variables")
wd = tempfile.mkdtemp()
with Dataset(os.path.join(wd, "s.nc"), "w") as ds:
    ds.createVariable("a", "f8", ())[...] = 2.0
    ds.createVariable("b", "f8", ())[...] = 3.0
SRC = """A = EEMSRead(InFileName = s.nc, InFieldName = a)
B = EEMSRead(InFileName = s.nc, InFieldName = b)
D = AMinusB(A = A, B = B)
E = Copy(InFieldName = D)
F = Copy(InFieldName = D)
"""
p = Program.from_source(SRC, libraries=EEMS_NETCDF_LIBRARIES, working_dir=wd)
param = p.commands["E"].inputs["InFieldName"]          # ResultParameter(DataParameter(), is_fuzzy=False)
raw = "D"
r1 = attempt("clean('D') before D has run", lambda: param.clean(raw, p, 4))
p.commands["D"].run()                                   # what E.run() does through D.result
r2 = attempt("clean('D') again, after D has run", lambda: param.clean(raw, p, 4))
r3 = attempt("clean(<the value cleaned first>) after D has run", lambda: param.clean(r1[1], p, 4))
print("   D.result is %r of %s" % (p.commands["D"]._result, type(p.commands["D"]._result).__name__))
print("   whole program: E and F are the same command on the same argument")
p = Program.from_source(SRC, libraries=EEMS_NETCDF_LIBRARIES, working_dir=wd)
attempt("program.run()", p.run)
print("   finished:", {k: c.is_finished for k, c in p.commands.items()})
p2 = Program.from_source(SRC.replace("F = Copy(InFieldName = D)\n", ""), libraries=EEMS_NETCDF_LIBRARIES, working_dir=wd)
attempt("program without F: run() the first time", p2.run)
attempt("program without F: run() the second time", p2.run)

print("(b) the configuration of docs/developer/guides/creating-commands.rst: a result that is a list of numbers")
class Names(Command):
    inputs = {}
    output = params.ListParameter(params.StringParameter())
    def execute(self, **kwargs):
        return ["x", "y"]
class Reverse(Command):
    inputs = {"InFieldName": params.ResultParameter(params.ListParameter(params.NumberParameter()))}
    output = params.ListParameter(params.NumberParameter())
    def execute(self, **kwargs):
        return list(reversed(kwargs["InFieldName"].result))
class Flag(Command):
    inputs = {"InFieldName": params.ResultParameter(params.BooleanParameter())}
    output = params.BooleanParameter()
    def execute(self, **kwargs):
        return kwargs["InFieldName"].result
class One(Command):
    inputs = {}
    output = params.NumberParameter()
    def execute(self, **kwargs):
        return 1
q = Program(libraries=(), working_dir=wd)
q.add_command(Names, "N", {}); q.add_command(One, "O", {})
lp = Reverse.inputs["InFieldName"]; bp = Flag.inputs["InFieldName"]
b1 = attempt("list-of-numbers result: clean('N') before run", lambda: lp.clean("N", q))
c1 = attempt("boolean result: clean('O') before run", lambda: bp.clean("O", q))
q.run()
b2 = attempt("list-of-numbers result: clean('N') after run", lambda: lp.clean("N", q))
c2 = attempt("boolean result: clean('O') after run", lambda: bp.clean("O", q))

print()
print("PROPERTY C20 demands: cleaning the same raw value again gives an equal value; cleaning an already-cleaned value returns it unchanged.")
bad = [x for x in ((r1, r2), (r1, r3), (b1, b2), (c1, c2)) if x[0][0] != x[1][0]]
print("VIOLATED in %d of 4 comparisons (returns/raises flip for the same raw value and the same parameter object)" % len(bad) if bad else "not violated")
