"""C20 finding 5: a command object (a raw value the API delivers for result parameters) is accepted by StringParameter
and PathParameter and 'cleaned' to the text of its memory address."""
import os, sys, tempfile
sys.path.insert(0, os.getcwd())
import mpilot
assert mpilot.__file__.startswith("/tmp/wt/C20"), mpilot.__file__
from mpilot import params as P
from mpilot.program import Program, EEMS_CSV_LIBRARIES
from mpilot.libraries.eems.csv.io import EEMSRead, EEMSWrite
from mpilot.exceptions import MPilotError

wd = tempfile.mkdtemp()
open(os.path.join(wd, "d.csv"), "w").write("v\n0.0\n0.5\n1.0\n")
p = Program(libraries=EEMS_CSV_LIBRARIES, working_dir=wd)
p.add_command(EEMSRead, "v", {"InFileName": "d.csv", "InFieldName": "v"})
cmd = p.commands["v"]
out = []
for name, par in (("StringParameter()", P.StringParameter()), ("PathParameter(must_exist=False)", P.PathParameter(must_exist=False)),
                  ("ListParameter(StringParameter())", P.ListParameter(P.StringParameter())),
                  ("NumberParameter()   [comparison]", P.NumberParameter()), ("BooleanParameter()  [comparison]", P.BooleanParameter()),
                  ("TupleParameter()    [comparison]", P.TupleParameter()), ("DataTypeParameter() [comparison]", P.DataTypeParameter())):
    raw = [cmd] if name.startswith("List") else cmd
    try:
        r = par.clean(raw, p, 1); out.append(r); print("%-36s returns %r" % (name, r))
    except MPilotError as e:
        print("%-36s raises the parameter error %s" % (name, type(e).__name__))
# the built-in write command, handed the command where the file name belongs, writes a file of that name
p.add_command(EEMSWrite, "w", {"OutFileName": cmd, "OutFieldNames": [cmd]})
p.run()
print("files in the working directory after EEMSWrite(OutFileName=<command>):", sorted(os.listdir(wd)))
print()
print("PROPERTY C20 demands: cleaning either returns a value of the documented type or raises the parameter error")
print("  (the repaired reference: what is not a string, a number or a path is not a string).")
print("VIOLATED: %d values accepted" % len(out) if out else "not violated")
