"""C20 finding 2: an int of more than 4300 digits (a legal raw value, NumberParameter cleans it to itself) makes
String/Path/Tuple/List-of-String cleaning raise ValueError instead of the parameter error, and makes the parameter
error raised by the other classes unprintable."""
import os, sys
sys.path.insert(0, os.getcwd())
import mpilot
assert mpilot.__file__.startswith("/tmp/wt/C20"), mpilot.__file__
from mpilot import params as P
from mpilot.commands import Command
from mpilot.program import Program
from mpilot.exceptions import MPilotError

p = Program(working_dir="/tmp")
big = 10 ** 4300            # 4301 digits; Number cleans it to itself, so it is also an "already cleaned" value
print("NumberParameter().clean(big) is big:", P.NumberParameter().clean(big, p) is big)
bad = 0
for name, par, raw in [
    ("StringParameter", P.StringParameter(), big),
    ("PathParameter(must_exist=False)", P.PathParameter(must_exist=False), big),
    ("TupleParameter", P.TupleParameter(), {"k": big}),
    ("ListParameter(StringParameter())", P.ListParameter(P.StringParameter()), [1, big]),
    ("ResultParameter()", P.ResultParameter(), big),
    ("DataTypeParameter()", P.DataTypeParameter(), big),
]:
    try:
        r = par.clean(raw, p, 1)
        print("%-34s returns %s" % (name, type(r).__name__))
    except MPilotError as e:
        try:
            print("%-34s raises the parameter error %s: %s" % (name, type(e).__name__, str(e)[:40]))
        except Exception as e2:
            print("%-34s raises the parameter error %s (but str() of that error raises %s)" % (name, type(e).__name__, type(e2).__name__))
    except Exception as e:
        bad += 1
        print("%-34s raises %s (NOT a parameter error): %s" % (name, type(e).__name__, str(e)[:60]))

# through a program: the first cleaning pass of Program.run() lets the ValueError escape as it is
class Show(Command):
    inputs = {"Label": P.StringParameter()}
    output = P.StringParameter()
    def execute(self, **kwargs):
        return kwargs["Label"]
q = Program(libraries=(), working_dir="/tmp")
q.add_command(Show, "S", {"Label": big})
try:
    q.run(); print("Program.run() returned")
except MPilotError as e:
    print("Program.run() raises an mpilot error", type(e).__name__)
except Exception as e:
    bad += 1
    print("Program.run() raises", type(e).__name__, "(not an MPilotError)")
print()
print("PROPERTY C20 demands: for every raw value, cleaning either returns a value of the documented type or raises the parameter error.")
print("VIOLATED %d times" % bad if bad else "not violated")
