# C14 finding 3 (weaker; possibly a neighbour of the recorded "acyclic part fails first" item, but here the program
# has NO acyclic part): a program that consists of nothing but a reference cycle is rejected with a type / fuzziness
# error about data "returned by" a command that can never return anything, instead of the recursive-model error.
# Run as: cd /tmp/wt/C14 && /venv/bin/python /tmp/wt/C14.out/finding3.py
import os, sys
sys.path.insert(0, os.getcwd())
import mpilot
assert mpilot.__file__.startswith(os.getcwd() + os.sep), mpilot.__file__

from mpilot.program import Program, EEMS_CSV_LIBRARIES, EEMS_NETCDF_LIBRARIES
from mpilot.exceptions import RecursiveModelStructure

work = "/tmp/wt/C14.out/work3"
os.makedirs(work, exist_ok=True)

PROGRAMS = [
    ("self-loop, CvtToFuzzy", EEMS_CSV_LIBRARIES, "R0 = CvtToFuzzy(InFieldName = R0)"),
    ("self-loop, CvtFromFuzzy", EEMS_NETCDF_LIBRARIES,
     "R0 = CvtFromFuzzy(InFieldName = R0, TrueThreshold = 1, FalseThreshold = 0)"),
    ("self-loop through a list, EEMSWrite", EEMS_CSV_LIBRARIES,
     'W = EEMSWrite(OutFileName = "o.csv", OutFieldNames = [W])'),
    ("2-cycle", EEMS_CSV_LIBRARIES, "A = CvtToFuzzy(InFieldName = B)\nB = FuzzyNot(InFieldName = A)"),
    ("3-cycle", EEMS_CSV_LIBRARIES,
     "A = FuzzyOr(InFieldNames = [C])\nB = FuzzyNot(InFieldName = A)\nC = Copy(InFieldName = B)"),
    ("control: self-loop, FuzzyNot", EEMS_CSV_LIBRARIES, "R0 = FuzzyNot(InFieldName = R0)"),
]

bad = 0
for title, libraries, source in PROGRAMS:
    program = Program.from_source(source, libraries=libraries, working_dir=work)
    try:
        program.run()
        outcome = "RETURNED"
    except RecursiveModelStructure:
        outcome = "RecursiveModelStructure"
    except Exception as ex:
        outcome = "{}: {}".format(type(ex).__name__, str(ex).splitlines()[0])
    if outcome != "RecursiveModelStructure":
        bad += 1
    print("{:38s} {}".format(title, outcome))

print()
print("The property demands RecursiveModelStructure for each of these programs (each is a bare cycle, there is no")
print("acyclic part that could fail first). Observed: {} of them are rejected with another error.".format(bad))
