# C14 finding 1: a cyclic program is accepted when a command on the cycle does not dereference
# (or only conditionally dereferences) the result it references.
# Run as: cd /tmp/wt/C14 && /venv/bin/python /tmp/wt/C14.out/finding1.py
import os, sys, types
sys.path.insert(0, os.getcwd())
import mpilot
assert mpilot.__file__.startswith(os.getcwd() + os.sep), mpilot.__file__

from mpilot import params
from mpilot.commands import Command
from mpilot.program import Program, EEMS_CSV_LIBRARIES
from mpilot.exceptions import RecursiveModelStructure

# A user command library, as described in docs/developer/guides/creating-commands.rst and loaded the documented way
# (libraries=EEMS_CSV_LIBRARIES + ('c14lib',)).
lib = types.ModuleType("c14lib")
sys.modules["c14lib"] = lib


class FirstOf(Command):
    """ Returns A unless UseB is true, in which case it returns B (the unused input is never evaluated). """

    __module__ = "c14lib"
    inputs = {
        "A": params.ResultParameter(params.DataParameter()),
        "B": params.ResultParameter(params.DataParameter()),
        "UseB": params.BooleanParameter(required=False),
    }
    output = params.DataParameter()

    def execute(self, **kwargs):
        return (kwargs["B"] if kwargs.get("UseB") else kwargs["A"]).result.copy()


lib.FirstOf = FirstOf

work = "/tmp/wt/C14.out/work1"
os.makedirs(work, exist_ok=True)
with open(os.path.join(work, "d.csv"), "w") as f:
    f.write("x\n1\n2\n3\n")

PROGRAMS = {
    "self-loop through a direct parameter": """
R = EEMSRead(InFileName = "d.csv", InFieldName = x)
S = FirstOf(A = R, B = S)
""",
    "2-cycle S -> T -> S (direct parameter + list)": """
R = EEMSRead(InFileName = "d.csv", InFieldName = x)
S = FirstOf(A = R, B = T)
T = Sum(InFieldNames = [S, R])
""",
    "3-cycle, other textual order": """
U = Copy(InFieldName = T)
T = Sum(InFieldNames = [S])
S = FirstOf(A = R, B = U)
R = EEMSRead(InFileName = "d.csv", InFieldName = x)
""",
}

violations = 0
for title, source in PROGRAMS.items():
    program = Program.from_source(source, libraries=EEMS_CSV_LIBRARIES + ("c14lib",), working_dir=work)
    try:
        program.run()
        outcome = "run() RETURNED SUCCESSFULLY; finished = {}".format(
            {name: command.is_finished for name, command in program.commands.items()}
        )
        violations += 1
    except RecursiveModelStructure:
        outcome = "rejected with RecursiveModelStructure"
    except Exception as ex:
        outcome = "rejected with {}".format(type(ex).__name__)
    print("{}:\n   {}".format(title, outcome))

print()
print("The property demands: every program whose result references contain a cycle is rejected by run() with")
print("RecursiveModelStructure. Observed: {} of {} cyclic programs ran to completion.".format(violations, len(PROGRAMS)))
print("VIOLATION" if violations else "no violation")

# The same through the command-line tool, with the library given by -l
import subprocess

with open(os.path.join(work, "c14clilib.py"), "w") as f:
    f.write(
        "from mpilot import params\n"
        "from mpilot.commands import Command\n"
        "class FirstOf(Command):\n"
        "    inputs = {'A': params.ResultParameter(params.DataParameter()),\n"
        "              'B': params.ResultParameter(params.DataParameter()),\n"
        "              'UseB': params.BooleanParameter(required=False)}\n"
        "    output = params.DataParameter()\n"
        "    def execute(self, **kwargs):\n"
        "        return (kwargs['B'] if kwargs.get('UseB') else kwargs['A']).result.copy()\n"
    )
with open(os.path.join(work, "cyclic.mpt"), "w") as f:
    f.write(PROGRAMS["2-cycle S -> T -> S (direct parameter + list)"])
proc = subprocess.run(
    [sys.executable, "-c", "from mpilot.cli.mpilot import main; main()", "eems-csv", os.path.join(work, "cyclic.mpt"),
     "-l", "c14clilib"],
    env=dict(os.environ, PYTHONPATH=os.pathsep.join([os.getcwd(), work])), capture_output=True, text=True,
)
print()
print("CLI on the 2-cycle: exit status {}, stderr {!r}".format(proc.returncode, proc.stderr[:200]))
print("The property demands a non-zero exit with 'Problem: The model is recursive.'")
