# C14 finding 2: after a run, editing the model the documented way (del program.commands[...] + add_command)
# so that it becomes cyclic is not noticed: run() returns successfully, the new command computed from a stale result.
# Run as: cd /tmp/wt/C14 && /venv/bin/python /tmp/wt/C14.out/finding2.py
import os, sys
sys.path.insert(0, os.getcwd())
import mpilot
assert mpilot.__file__.startswith(os.getcwd() + os.sep), mpilot.__file__

from mpilot.program import Program
from mpilot.exceptions import RecursiveModelStructure

work = "/tmp/wt/C14.out/work2"
os.makedirs(work, exist_ok=True)
with open(os.path.join(work, "d.csv"), "w") as f:
    f.write("x\n1\n2\n3\n")


def outcome(program):
    try:
        program.run()
        return "run() RETURNED SUCCESSFULLY; " + ", ".join(
            "{} = {}".format(name, command._result) for name, command in program.commands.items()
        )
    except RecursiveModelStructure:
        return "rejected with RecursiveModelStructure"
    except Exception as ex:
        return "rejected with {}: {}".format(type(ex).__name__, str(ex).splitlines()[0])


ACYCLIC = """
A = EEMSRead(InFileName = "d.csv", InFieldName = x)
B = Sum(InFieldNames = [A, A])
"""

program = Program.from_source(ACYCLIC, working_dir=work)
print("1. acyclic model A <- B:             ", outcome(program))

# docs/developer/guides/working-with-models.rst, "Modifying the model": remove a command by deleting it from
# program.commands, add one with add_command.  A is redefined in terms of B: the model is now the 2-cycle A <-> B.
del program.commands["A"]
program.add_command(program.find_command_class("Copy"), "A", {"InFieldName": "B"})
print("2. the model is now:\n" + "\n".join("      " + line for line in program.to_string().splitlines()))
print("3. run() of the edited (cyclic) model:", outcome(program))

fresh = Program.from_source(program.to_string(), working_dir=work)
print("4. the very same model text, loaded afresh:", outcome(fresh))

# Same with a self-loop closed through a list, after a FAILED run that finished part of the model
FAILING = """
A = EEMSRead(InFileName = "d.csv", InFieldName = x)
B = Sum(InFieldNames = [A])
C = EEMSRead(InFileName = "d.csv", InFieldName = nosuchcolumn)
"""
program = Program.from_source(FAILING, working_dir=work)
print("5. model with a bad column:          ", outcome(program))
del program.commands["C"]            # the repair ...
del program.commands["A"]            # ... and a mistaken edit that closes the cycle A <-> B
program.add_command(program.find_command_class("Mean"), "A", {"InFieldNames": ["B", "B"]})
print("6. run() after the edit (A <-> B):   ", outcome(program))

print()
print("The property demands that run() of a program whose references contain a cycle is rejected with")
print("RecursiveModelStructure (steps 3 and 6, as step 4 is). Observed: steps 3 and 6 return successfully.")
