# C02 finding 5: the CSV EEMSRead parses every cell with float() even for DataType="Integer":
# integer cells beyond 2**53 come out as different integers (silently)
import os, sys, tempfile, warnings
sys.path.insert(0, os.getcwd())
warnings.simplefilter("ignore")
import mpilot
assert mpilot.__file__.startswith("/tmp/wt/C02/"), mpilot.__file__
from mpilot.program import Program

cells = [123456789012345678, 9007199254740993, -9007199254740993, 5]
d = tempfile.mkdtemp()
with open(os.path.join(d, "in.csv"), "w") as f:
    f.write("A,One\n" + "".join("%d,1\n" % c for c in cells))
model = """
A = EEMSRead(InFileName="in.csv", InFieldName="A", DataType="Integer")
One = EEMSRead(InFileName="in.csv", InFieldName="One", DataType="Integer")
C = Copy(InFieldName=A)
D = AMinusB(A=A, B=One)
"""
p = Program.from_source(model, working_dir=d)
p.run()
print("cells in the file   :", cells)
print("A    dtype", p.commands["A"].result.dtype, "got", p.commands["A"].result.tolist())
print("Copy(A)          got:", p.commands["C"].result.tolist())
print("A - 1            got:", p.commands["D"].result.tolist())
print("A - 1       expected:", [c - 1 for c in cells])
print("PROPERTY DEMANDS: an integer column holds the integers of the table (all of them fit in int64, far from 2**63).")
print("VIOLATED" if p.commands["A"].result.tolist() != cells else "ok")
