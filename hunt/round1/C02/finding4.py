# C02 finding 4: with scalar (0-d) NetCDF variables a model works with ONE consumer of an intermediate result and is
# rejected as soon as a SECOND command consumes the same result
import os, sys, tempfile, warnings
sys.path.insert(0, os.getcwd())
warnings.simplefilter("ignore")
from netCDF4 import Dataset
import mpilot
assert mpilot.__file__.startswith("/tmp/wt/C02/"), mpilot.__file__
from mpilot.program import Program, EEMS_NETCDF_LIBRARIES

d = tempfile.mkdtemp()
with Dataset(os.path.join(d, "in.nc"), "w") as ds:
    ds.createVariable("A", "f8", ())[...] = 3.0
    ds.createVariable("B", "f8", ())[...] = 4.0
base = """
A = EEMSRead(InFileName="in.nc", InFieldName="A")
B = EEMSRead(InFileName="in.nc", InFieldName="B")
S = Sum(InFieldNames=[A, B])
C1 = AMinusB(A=S, B=A)
"""
def run(src):
    p = Program.from_source(src, libraries=EEMS_NETCDF_LIBRARIES, working_dir=d)
    try:
        p.run()
        return {k: (type(c.result).__name__, c.result.tolist()) for k, c in p.commands.items()}
    except Exception as e:
        return "%s: %s" % (type(e).__name__, str(e).splitlines()[0])
print("one consumer of S :", run(base))
print("two consumers of S:", run(base + "C2 = AMinusB(A=S, B=B)\n"))
print("PROPERTY DEMANDS: S = 7, C1 = 4 (and C2 = 3) whether or not a second command also consumes S.")
print("VIOLATED" if isinstance(run(base + "C2 = AMinusB(A=S, B=B)\n"), str) and not isinstance(run(base), str) else "ok")
