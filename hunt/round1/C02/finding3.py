# C02 finding 3: NetCDF DataType="Positive Integer" (numpy.uint): AMinusB wraps below zero, Normalize returns ~0 everywhere
import os, sys, tempfile, warnings
sys.path.insert(0, os.getcwd())
warnings.simplefilter("ignore")
import numpy
from netCDF4 import Dataset
import mpilot
assert mpilot.__file__.startswith("/tmp/wt/C02/"), mpilot.__file__
from mpilot.program import Program, EEMS_NETCDF_LIBRARIES

d = tempfile.mkdtemp()
with Dataset(os.path.join(d, "in.nc"), "w") as ds:
    ds.createDimension("x", 4)
    ds.createVariable("x", "f8", ("x",))[:] = [0, 1, 2, 3]
    ds.createVariable("A", "i4", ("x",))[:] = [1, 2, 3, 4]
    ds.createVariable("B", "i4", ("x",))[:] = [4, 3, 2, 1]
tmpl = """
A = EEMSRead(InFileName="in.nc", InFieldName="A", DataType="%s")
B = EEMSRead(InFileName="in.nc", InFieldName="B", DataType="%s")
D = AMinusB(A=A, B=B)
N = Normalize(InFieldName=A)
"""
out = {}
for dt in ("Positive Integer", "Integer"):
    p = Program.from_source(tmpl % (dt, dt), libraries=EEMS_NETCDF_LIBRARIES, working_dir=d)
    p.run()
    out[dt] = p
    print("DataType=%-17s A dtype %s" % (dt, p.commands["A"].result.dtype))
    print("   AMinusB   got", p.commands["D"].result.tolist())
    print("   Normalize got", p.commands["N"].result.tolist())
print("expected (same values, only the declared type differs): AMinusB [-3, -1, 1, 3]; Normalize [0, 1/3, 2/3, 1]")
print("PROPERTY DEMANDS: A - B and (A - min)/(max - min) evaluated on the values 1..4; the values are small, nothing is near 2**63.")
bad = out["Positive Integer"].commands["D"].result.tolist()[0] != -3
print("VIOLATED" if bad else "ok")
