# C02 finding 1: FuzzyXOr / FuzzySelectedUnion give wrong values AND a wrong shape for data of rank >= 2 (NetCDF grids)
import os, sys, tempfile, warnings
sys.path.insert(0, os.getcwd())
warnings.simplefilter("ignore")
import numpy
from netCDF4 import Dataset
import mpilot
assert mpilot.__file__.startswith("/tmp/wt/C02/"), mpilot.__file__
from mpilot.program import Program, EEMS_NETCDF_LIBRARIES

d = tempfile.mkdtemp()
with Dataset(os.path.join(d, "in.nc"), "w") as ds:
    ds.createDimension("y", 2)
    ds.createDimension("x", 3)
    ds.createVariable("y", "f8", ("y",))[:] = [0, 1]
    ds.createVariable("x", "f8", ("x",))[:] = [0, 1, 2]
    ds.createVariable("A", "f8", ("y", "x"))[:] = [[1, 2, 3], [4, 5, 6]]
    ds.createVariable("B", "f8", ("y", "x"))[:] = [[6, 5, 4], [3, 2, 1]]
    ds.createVariable("C", "f8", ("y", "x"))[:] = [[2, 2, 6], [1, 6, 3]]

model = """
A  = EEMSRead(InFileName="in.nc", InFieldName="A")
B  = EEMSRead(InFileName="in.nc", InFieldName="B")
C  = EEMSRead(InFileName="in.nc", InFieldName="C")
FA = CvtToFuzzy(InFieldName=A, TrueThreshold=6, FalseThreshold=1)
FB = CvtToFuzzy(InFieldName=B, TrueThreshold=6, FalseThreshold=1)
FC = CvtToFuzzy(InFieldName=C, TrueThreshold=6, FalseThreshold=1)
X  = FuzzyXOr(InFieldNames=[FA, FB, FC])
S  = FuzzySelectedUnion(InFieldNames=[FA, FB, FC], TruestOrFalsest=Truest, NumberToConsider=2)
O  = FuzzyOr(InFieldNames=[FA, FB, FC])
"""
p = Program.from_source(model, libraries=EEMS_NETCDF_LIBRARIES, working_dir=d)
p.run()
r = {k: c.result for k, c in p.commands.items()}

# independent per-cell evaluation
fa, fb, fc = (r[k].tolist() for k in ("FA", "FB", "FC"))
def xor(cells):
    s = sorted(cells); t, t2 = s[-1], s[-2]
    return -1 if t <= -1 else t - (t - t2) * (t2 + 1) / (t + 1)
def sel(cells):
    s = sorted(cells)[-2:]
    return sum(s) / 2
exp_x = [[xor((fa[i][j], fb[i][j], fc[i][j])) for j in range(3)] for i in range(2)]
exp_s = [[sel((fa[i][j], fb[i][j], fc[i][j])) for j in range(3)] for i in range(2)]

print("input shape            :", r["FA"].shape)
print("FuzzyOr shape (control):", r["O"].shape)
print("FuzzyXOr           got :", r["X"].shape, r["X"].tolist())
print("FuzzyXOr      expected :", (2, 3), exp_x)
print("FuzzySelectedUnion got :", r["S"].shape, r["S"].tolist())
print("FuzzySelectedUnion exp :", (2, 3), exp_s)
bad = r["X"].shape != (2, 3) or r["S"].shape != (2, 3)
print("PROPERTY DEMANDS: one result cell per input cell, equal to the cell-wise XOr / selected union.")
print("VIOLATED" if bad else "ok")
