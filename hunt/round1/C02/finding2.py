# C02 finding 2: NormalizeZScore with StartVal > EndVal returns the constant StartVal for every cell
import os, sys, tempfile, warnings, math
sys.path.insert(0, os.getcwd())
warnings.simplefilter("ignore")
import mpilot
assert mpilot.__file__.startswith("/tmp/wt/C02/"), mpilot.__file__
from mpilot.program import Program

d = tempfile.mkdtemp()
with open(os.path.join(d, "in.csv"), "w") as f:
    f.write("A\n1\n2\n3\n4\n5\n")
model = """
A = EEMSRead(InFileName="in.csv", InFieldName="A")
Up   = NormalizeZScore(InFieldName=A, TrueThresholdZScore=1, FalseThresholdZScore=-1, StartVal=0, EndVal=1)
Down = NormalizeZScore(InFieldName=A, TrueThresholdZScore=1, FalseThresholdZScore=-1, StartVal=1, EndVal=0)
Neg  = NormalizeZScore(InFieldName=A, TrueThresholdZScore=1, FalseThresholdZScore=-1, StartVal=0, EndVal=-1)
Ctl  = Normalize(InFieldName=A, StartVal=1, EndVal=0)
"""
p = Program.from_source(model, working_dir=d)
p.run()
col = [1.0, 2.0, 3.0, 4.0, 5.0]
m = sum(col) / 5
sd = math.sqrt(sum((x - m) ** 2 for x in col) / 5)
def ref(start, end):
    x1, x2 = m + sd * 1, m + sd * -1          # true threshold -> EndVal, false threshold -> StartVal
    lo, hi = min(start, end), max(start, end)
    return [max(lo, min(hi, (x - x1) * (start - end) / (x2 - x1) + end)) for x in col]
for name, (s, e) in (("Up", (0, 1)), ("Down", (1, 0)), ("Neg", (0, -1))):
    print(name, "StartVal=%s EndVal=%s" % (s, e))
    print("   got     ", p.commands[name].result.tolist())
    print("   expected", ref(s, e))
print("Ctl (Normalize, StartVal=1, EndVal=0, handles the reversed range):", p.commands["Ctl"].result.tolist())
print("PROPERTY DEMANDS: the linear z-score map from [false threshold, true threshold] onto [StartVal, EndVal], limited to that range.")
print("VIOLATED" if len(set(p.commands["Down"].result.tolist())) == 1 else "ok")
