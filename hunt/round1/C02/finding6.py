# C02 finding 6: results depend on the order of the commands in the file when an EEMSWrite target is also read:
# the write is a side effect that the dependency graph does not know about
import os, sys, tempfile, warnings, itertools
sys.path.insert(0, os.getcwd())
warnings.simplefilter("ignore")
import mpilot
assert mpilot.__file__.startswith("/tmp/wt/C02/"), mpilot.__file__
from mpilot.program import Program

lines = [
    'A = EEMSRead(InFileName="in.csv", InFieldName="A")',
    'X = Sum(InFieldNames=[A, A])',
    'W = EEMSWrite(OutFileName="in.csv", OutFieldNames=[A, X])',   # "append the result column to the table"
    'R = EEMSRead(InFileName="in.csv", InFieldName="X")',          # the table already has a column X
]
seen = {}
for perm in itertools.permutations(lines):
    d = tempfile.mkdtemp()
    with open(os.path.join(d, "in.csv"), "w") as f:
        f.write("A,X\n1,100\n3,200\n")
    p = Program.from_source("\n".join(perm), working_dir=d)
    p.run()
    seen.setdefault(str(p.commands["R"].result.tolist()), []).append("".join(l[0] for l in perm))
for value, orders in seen.items():
    print("R =", value, "for file orders", orders)
print("PROPERTY DEMANDS: one value of R for every permutation of the same four commands.")
print("VIOLATED" if len(seen) > 1 else "ok")
