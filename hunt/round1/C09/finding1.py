"""C09 finding 1: single-input FuzzyOr / FuzzyAnd clamp their INPUT array in place.

Run:  cd /tmp/wt/C09 && /venv/bin/python /tmp/wt/C09.out/finding1.py
"""
import os
import sys

sys.path.insert(0, os.getcwd())

import numpy
import mpilot
from mpilot import params
from mpilot.commands import Command
from mpilot.program import Program

assert mpilot.__file__.startswith("/tmp/wt/C09"), mpilot.__file__


class Scores(Command):
    """A plugin producer (the documented way to add commands) that declares its output fuzzy.

    Nothing in mpilot checks the value range of a fuzzy result: ResultParameter(is_fuzzy=True) only looks at the
    `is_fuzzy` flag.  The project's own tests inject fuzzy producer results the same way
    (tests/utils.py:create_command_with_result(..., fuzzy=True)).
    """

    is_fuzzy = True
    output = params.DataParameter()

    def execute(self, **kwargs):
        return numpy.ma.array([-3.0, -0.25, 0.5, 2.5, 9.0], mask=[False, False, False, False, True])


def show(tag, arr):
    print("    %-34s %s  dtype=%s mask=%s" % (tag, arr, arr.dtype, numpy.ma.getmaskarray(arr).astype(int)))


for consumer in ("FuzzyOr", "FuzzyAnd"):
    print("=== %s with ONE input ===" % consumer)
    program = Program()  # built-in EEMS CSV libraries
    producer = Scores("P", program=program)
    program.commands["P"] = producer

    producer.run()  # the producer's result is now "produced"
    before = producer.result.copy()
    show("P.result when produced:", producer.result)

    # earlier consumers read P: the two-input form of the same operator and CvtFromFuzzy do not touch P
    program.add_command(program.find_command_class(consumer), "K2", {"InFieldNames": ["P", "P"]})
    program.commands["K2"].run()
    args = {"InFieldName": "P", "TrueThreshold": 100, "FalseThreshold": 0}
    program.add_command(program.find_command_class("CvtFromFuzzy"), "U", dict(args))
    program.commands["U"].run()
    show("P.result after %s([P, P]):" % consumer, producer.result)
    assert (producer.result == before).all()

    # the single-input form of the n-ary operator
    program.add_command(program.find_command_class(consumer), "K", {"InFieldNames": ["P"]})
    program.commands["K"].run()
    show("P.result after %s([P]):" % consumer, producer.result)

    same_values = bool((producer.result.compressed() == before.compressed()).all())
    print("    K.result is P.result: %s" % (program.commands["K"].result is producer.result))
    print("    non-missing values of P unchanged: %s   <-- the property demands True" % same_values)

    # consequence: a consumer computed before and the same consumer computed after disagree
    program.add_command(program.find_command_class("CvtFromFuzzy"), "U2", dict(args))
    program.commands["U2"].run()
    show("U  = CvtFromFuzzy(P) run earlier:", program.commands["U"].result)
    show("U2 = CvtFromFuzzy(P) run later:", program.commands["U2"].result)
    print()

print("PROPERTY C09: once P's result has been produced its non-missing values never change, whatever consumers run")
print("OBSERVED    : %s([P]) / %s([P]) rewrote P's non-missing cells -3.0 -> -1.0 and 2.5 -> 1.0" % ("FuzzyOr", "FuzzyAnd"))
