"""C01 finding 1: with scalar (0-d) NetCDF data the same acyclic graph runs or raises on the FIRST run()
depending on how many commands consume a result and on the textual order of the commands."""
import os, sys, tempfile
sys.path.insert(0, os.getcwd())
import mpilot
assert mpilot.__file__.startswith("/tmp/wt/C01/"), mpilot.__file__
from netCDF4 import Dataset
from mpilot.program import Program, EEMS_NETCDF_LIBRARIES

d = tempfile.mkdtemp()
with Dataset(os.path.join(d, "in.nc"), "w") as ds:
    ds.createVariable("s", "f8", ())[...] = 2.5      # a scalar variable: legal NetCDF, read without complaint

READ = 'A = EEMSRead(InFileName = "in.nc", InFieldName = s)'
SUM = 'S = Sum(InFieldNames = [A, A])'


def attempt(title, lines):
    program = Program.from_source("\n".join(lines), EEMS_NETCDF_LIBRARIES, working_dir=d)
    executed = []
    for name, command in program.commands.items():
        def wrap(name=name, original=command.execute):
            def execute(**kwargs):
                executed.append(name)
                return original(**kwargs)
            return execute
        command.execute = wrap()
    try:
        program.run()
        print("%-46s first run() ok, executed %s" % (title, executed))
    except Exception as exc:
        print("%-46s first run() RAISED %s: %s  (executed %s; never executed %s)" % (
            title, type(exc).__name__, str(exc).splitlines()[0], executed,
            [n for n in program.commands if n not in executed]))


attempt("one consumer of S:", [READ, SUM, "T = Copy(InFieldName = S)"])
attempt("two consumers of S:", [READ, SUM, "T = Copy(InFieldName = S)", "U = Copy(InFieldName = S)"])
attempt("list consumer, written before its producer:", ["T = Sum(InFieldNames = [S])", SUM, READ])
attempt("same graph, producer written first:", [READ, SUM, "T = Sum(InFieldNames = [S])"])
print()
print("The property demands: every command executes exactly once and is fed the finished result of what it")
print("references, however many commands consume a result and in every textual order. Here the second consumer")
print("of S (or the only consumer, if S happens to be finished before it is validated) is refused.")
