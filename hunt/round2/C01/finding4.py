"""C01 finding 4: a second run() that has nothing left to execute is not a no-op: it validates every argument of every
finished command again and raises when an input file is gone meanwhile."""
import os, sys, tempfile
sys.path.insert(0, os.getcwd())
import mpilot
assert mpilot.__file__.startswith("/tmp/wt/C01/"), mpilot.__file__
from mpilot.program import Program, EEMS_CSV_LIBRARIES

d = tempfile.mkdtemp()
path = os.path.join(d, "in.csv")
open(path, "w").write("a,b\n1,2\n4,5\n")
program = Program.from_source(
    'A = EEMSRead(InFileName = "in.csv", InFieldName = a)\n'
    'B = EEMSRead(InFileName = "in.csv", InFieldName = b)\n'
    'S = Sum(InFieldNames = [A, B])\n'
    'W = EEMSWrite(OutFileName = "out.csv", OutFieldNames = [S])',
    EEMS_CSV_LIBRARIES, working_dir=d)
program.run()
print("first run() ok; all finished:", all(c.is_finished for c in program.commands.values()))
os.remove(path)                                  # e.g. a temporary input that is cleaned up after the run
try:
    program.run()
    print("second run() ok (nothing to do)")
except Exception as exc:
    print("second run() RAISED %s: %s" % (type(exc).__name__, str(exc).splitlines()[0]))
print("results are still readable:", program.commands["S"].result)
print()
print("The property demands that running the program again executes nothing further - i.e. it is a no-op; instead")
print("run() fails although every result is memoised and nothing would be read.")
