"""C01 finding 3: a result that one command consumes twice through its list is fine for every command except the
NetCDF EEMSWrite, which crashes with an UnexpectedError and leaves a partial file."""
import os, sys, tempfile
sys.path.insert(0, os.getcwd())
import mpilot
assert mpilot.__file__.startswith("/tmp/wt/C01/"), mpilot.__file__
import numpy
from netCDF4 import Dataset
from mpilot.program import Program, EEMS_NETCDF_LIBRARIES, EEMS_CSV_LIBRARIES

d = tempfile.mkdtemp()
with Dataset(os.path.join(d, "in.nc"), "w") as ds:
    ds.createDimension("x", 3)
    ds.createVariable("u", "f8", ("x",))[:] = [1, 2, 3]
open(os.path.join(d, "in.csv"), "w").write("u\n1\n2\n3\n")

for title, libraries, source in (
    ("CSV   ", EEMS_CSV_LIBRARIES, 'U = EEMSRead(InFileName = "in.csv", InFieldName = u)\n'
                                   'S = Sum(InFieldNames = [U, U])\n'
                                   'W = EEMSWrite(OutFileName = "out.csv", OutFieldNames = [S, U, S])'),
    ("NetCDF", EEMS_NETCDF_LIBRARIES, 'U = EEMSRead(InFileName = "in.nc", InFieldName = u)\n'
                                      'S = Sum(InFieldNames = [U, U])\n'
                                      'W = EEMSWrite(OutFileName = "out.nc", OutFieldNames = [S, U, S],\n'
                                      '    DimensionFileName = "in.nc", DimensionFieldName = u)'),
):
    program = Program.from_source(source, libraries, working_dir=d)
    try:
        program.run()
        print(title, "run() ok; W finished:", program.commands["W"].is_finished)
    except Exception as exc:
        print(title, "run() RAISED %s: %s" % (type(exc).__name__, str(exc).splitlines()[0]))
        print("       W finished:", program.commands["W"].is_finished,
              "- variables in the partial out.nc:", list(Dataset(os.path.join(d, "out.nc")).variables))
print()
print("The property demands that a command is fed the finished result of everything it references, however often")
print("(also repeatedly in one list); Sum, PrintVars and the CSV EEMSWrite accept [S, U, S], the NetCDF one dies.")
