"""C01 finding 2: a run() that fails half-way, followed by a repair of the input and a second run(), executes the
commands that were under way a second time, and their side effects (PrintVars output) happen twice."""
import os, sys, tempfile, io, contextlib
sys.path.insert(0, os.getcwd())
import mpilot
assert mpilot.__file__.startswith("/tmp/wt/C01/"), mpilot.__file__
from mpilot.program import Program, EEMS_CSV_LIBRARIES

d = tempfile.mkdtemp()
path = os.path.join(d, "in.csv")
open(path, "w").write("a,b,c\n1,2,oops\n4,5,6\n")        # column c holds a typing error

source = """
A = EEMSRead(InFileName = "in.csv", InFieldName = a)
B = EEMSRead(InFileName = "in.csv", InFieldName = b)
C = EEMSRead(InFileName = "in.csv", InFieldName = c)
S = Sum(InFieldNames = [A, B])
P = PrintVars(InFieldNames = [A, S, C])
T = AMinusB(A = S, B = C)
"""
program = Program.from_source(source, EEMS_CSV_LIBRARIES, working_dir=d)
entries = {}
for name, command in program.commands.items():
    def wrap(name=name, original=command.execute):
        def execute(**kwargs):
            entries[name] = entries.get(name, 0) + 1
            return original(**kwargs)
        return execute
    command.execute = wrap()

out = io.StringIO()
with contextlib.redirect_stdout(out):
    try:
        program.run()
    except Exception as exc:
        first = "%s: %s" % (type(exc).__name__, str(exc).splitlines()[0])
    open(path, "w").write("a,b,c\n1,2,3\n4,5,6\n")    # the user repairs the file ...
    program.run()                                        # ... and runs the same program again
    program.run()

print("first run():", first)
print("execute() entries per command after repair and two more run():", entries)
print("what PrintVars P printed in total:")
print(out.getvalue())
print("The property demands one execution per command and nothing further on later run() calls; P and C were")
print("entered twice, and the lines for A and S appear twice although A and S were computed once.")
