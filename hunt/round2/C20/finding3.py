"""C20 finding 3 (weaker): TupleParameter merges keys that become the same text, silently dropping entries, so two EQUAL
raw key/value lists clean to UNEQUAL values (which entry survives depends on insertion order)."""
import os, sys

sys.path.insert(0, os.getcwd())
import mpilot

assert mpilot.__file__.startswith("/tmp/wt/C20/"), mpilot.__file__
from mpilot.params import TupleParameter

param = TupleParameter()
a = {1: "first", "1": "second"}
b = {"1": "second", 1: "first"}
print("raw a =", a)
print("raw b =", b)
print("a == b:", a == b, "(the same raw value for Python)")
clean_a, clean_b = param.clean(a, None, 1), param.clean(b, None, 1)
print("clean(a) =", clean_a)
print("clean(b) =", clean_b)
print("clean(a) == clean(b):", clean_a == clean_b)
print("entries in:", len(a), "entries out:", len(clean_a))
print("raw untouched:", a == {1: "first", "1": "second"} and len(a) == 2)
print()
if clean_a != clean_b or len(clean_a) != len(a):
    print("VIOLATION: cleaning the same (equal) raw value gave unequal values, and an entry was dropped without an error")
    print("C20 demands: cleaning the same raw value again gives an equal value, or the parameter error is raised")
else:
    print("no violation")
