"""C20 finding 1: BooleanParameter makes a boolean out of ANY integer or integer-looking string, not only the
true/false/0/1 forms (2, -7, 10**30, "2", "-7", "007", "1_0", Arabic-Indic "٣" ... all clean to True)."""
import os, sys, tempfile

sys.path.insert(0, os.getcwd())
import mpilot

assert mpilot.__file__.startswith("/tmp/wt/C20/"), mpilot.__file__
from mpilot.exceptions import MPilotError
from mpilot.params import BooleanParameter, ListParameter
from mpilot.program import Program

param = BooleanParameter()


def show(raw):
    try:
        result = repr(param.clean(raw, None, 1))
    except MPilotError as ex:
        result = "raises " + type(ex).__name__
    print("  BooleanParameter().clean({!r:>12}) -> {}".format(raw, result))
    return result


print("the documented forms (true/false/0/1):")
for raw in (True, False, 0, 1, "true", "False", "0", "1"):
    show(raw)

print("values that are none of the true/false/0/1 forms, the property demands ParameterNotValid:")
violations = []
for raw in (2, -7, 10 ** 30, "2", "-7", "007", "1_0", " 3\n", u"٣"):
    if not show(raw).startswith("raises"):
        violations.append(raw)

print("for comparison, these near-forms of 0/1/true ARE refused (so the acceptance above is not a deliberate leniency):")
for raw in (1.0, 0.0, "1.0", " true", "yes"):
    show(raw)

print("item-wise in a list too:", ListParameter(BooleanParameter()).clean([2, "-1", "10"], None, 1))

# The same through a command file: IgnoreZeros = -7 passes both cleanings (program.py:269 and commands.py:127) and the
# command runs with IgnoreZeros = True
wd = tempfile.mkdtemp()
with open(os.path.join(wd, "in.csv"), "w") as f:
    f.write("a\n0\n0\n1\n2\n3\n4\n10\n")
source = """
A = EEMSRead(InFileName = in.csv, InFieldName = a)
N = NormalizeMeanToMid(InFieldName = A, IgnoreZeros = -7, NormalValues = [0, 0.25, 0.5, 0.75, 1])
"""
for flag in ("-7", "true", "false"):
    program = Program.from_source(source.replace("-7", flag), working_dir=wd)
    program.run()
    print("model with IgnoreZeros = {:>5} ran, result: {}".format(flag, program.commands["N"].result))

print()
if violations:
    print("VIOLATION: {} values that are not a true/false/0/1 form were cleaned to a boolean: {!r}".format(
        len(violations), violations))
    print("C20 demands: a boolean only from the true/false/0/1 forms, the parameter error (ParameterNotValid) otherwise")
else:
    print("no violation")
