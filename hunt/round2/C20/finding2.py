"""C20 finding 2: TupleParameter (key/value list, documented as "both the key and value are strings") turns a
collection given as a value or key into its text instead of raising the parameter error -- the same thing that was
repaired for StringParameter, left in the other text-producing parameter. The parser itself can deliver such a value."""
import os, sys

sys.path.insert(0, os.getcwd())
import mpilot

assert mpilot.__file__.startswith("/tmp/wt/C20/"), mpilot.__file__
from mpilot import params
from mpilot.commands import Command
from mpilot.exceptions import MPilotError
from mpilot.libraries.eems.csv.io import EEMSRead
from mpilot.program import Program

violations = []


def show(label, func):
    try:
        result = func()
        print("  {} -> {!r}".format(label, result))
        return result
    except MPilotError as ex:
        print("  {} -> raises {}".format(label, type(ex).__name__))


print("what a string parameter does with a collection (repaired):")
show("StringParameter().clean(['a', 'b'])", lambda: params.StringParameter().clean(["a", "b"], None, 1))
show("StringParameter().clean({'k': 'v'})", lambda: params.StringParameter().clean({"k": "v"}, None, 1))

print("what a key/value parameter does with the same collections as a value (or a key):")
for raw in ({"k": ["a", "b"]}, {"k": []}, {"k": {"x": "y"}}, {"k": ("a", 1)}, {("a", "b"): "v"}, {"k": [["deep"]]}):
    cleaned = show("TupleParameter().clean({!r})".format(raw), lambda: params.TupleParameter().clean(raw, None, 1))
    if cleaned is not None:
        violations.append((raw, cleaned))

# Through the API of a program: Metadata is a TupleParameter of every command
program = Program(working_dir="/tmp")
program.add_command(
    EEMSRead, "A", {"InFileName": "/etc/hostname", "InFieldName": "a", "Metadata": {"Sources": ["x.csv", "y.csv"]}}
)
argument = [a for a in program.commands["A"].arguments if a.name == "Metadata"][0]
print("API, Metadata = {'Sources': ['x.csv', 'y.csv']}:")
for i in (1, 2):  # cleaned twice per run, like program.py:269 and commands.py:127
    cleaned = show("cleaning #{}".format(i), lambda: EEMSRead.inputs["Metadata"].clean(argument.value, program, 1))
show("command.metadata", lambda: program.commands["A"].metadata)
if cleaned is not None:
    violations.append((argument.value, cleaned))


# Through the parser: a key/value list inside a list reaches the cleaning with the parser's own (tuple) nodes as values
class Tagged(Command):
    inputs = {"Tags": params.ListParameter(params.TupleParameter())}
    output = params.BooleanParameter()

    def execute(self, **kwargs):
        print("  Tagged.execute got Tags =", kwargs["Tags"])
        return True


program = Program.from_source('T = Tagged(Tags = [[Color: "Blue"], [Size: 3]])', libraries=("__main__",))
raw = program.commands["T"].arguments[0].value
print("parser, Tags = [[Color: \"Blue\"], [Size: 3]]: the raw value delivered to clean() is", raw)
cleaned = show("ListParameter(TupleParameter()).clean(raw)", lambda: Tagged.inputs["Tags"].clean(raw, program, 1))
program.run()
if cleaned is not None and cleaned != [{"Color": "Blue"}, {"Size": "3"}]:
    violations.append((raw, cleaned))

print()
if violations:
    print("VIOLATION: {} collections (list, dict, tuple, the parser's ExpressionNode tuple) were cleaned to their text".format(len(violations)))
    print("C20 demands: a key/value list of text keys and text values, or ParameterNotValid -- a collection is not a")
    print("string (the reference the string parameter was repaired against), so these must raise ParameterNotValid")
else:
    print("no violation")
