"""C12 finding 3: an EEMS 2.0 command that has neither a result name, nor NewFieldName, nor InFieldName is accepted under
the result name None (the error the converter means to raise is dead code); two of them are rejected with
DuplicateResult naming a result "None" that appears nowhere in the model."""
from __future__ import print_function
import os, sys, tempfile

sys.path.insert(0, os.getcwd())
import mpilot
from mpilot.program import Program

assert mpilot.__file__.startswith("/tmp/wt/C12/"), mpilot.__file__

d = tempfile.mkdtemp()
with open(os.path.join(d, "in.csv"), "w") as f:
    f.write("a,b\n1,2\n3,4\n")

READS = "READ(InFileName = in.csv, InFieldName = a)\nREAD(InFileName = in.csv, InFieldName = b)\n"
for label, source in (
    ("one command without a result name ", READS + "SUM(InFieldNames = [a, b])\n"),
    ("two commands without a result name", READS + "SUM(InFieldNames = [a, b])\nMULT(InFieldNames = [a, b])\n"),
):
    try:
        program = Program.from_source(source, working_dir=d)
        program.run()
        print(label, "-> accepted; result names:", list(program.commands.keys()))
    except Exception as ex:
        print(label, "-> rejected:", type(ex).__name__, "|", str(ex).splitlines()[0], "| line", ex.lineno)

print()
print("The property demands: one verdict for the ill-formed command (utils.convert_eems2_commands means to raise")
print("'Cannot convert from EEMS 2.0: No InFieldName argument for command without a result name'), given at the first")
print("such command, and an error that names something of the model: there is no result called None in it, and the two")
print("commands do not share a result name.")
