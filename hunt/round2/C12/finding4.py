"""C12 finding 4: a reference given as a Command object that is not one of the program's commands (a command of another
program, or one that was removed with `del program.commands[name]`) passes the check of the whole model; the arguments
of that command are never checked up front, so its parameter error is raised in the middle of the run, after an output
file was written."""
from __future__ import print_function
import os, sys, tempfile

sys.path.insert(0, os.getcwd())
import mpilot
from mpilot.program import Program

assert mpilot.__file__.startswith("/tmp/wt/C12/"), mpilot.__file__

d = tempfile.mkdtemp()
with open(os.path.join(d, "in.csv"), "w") as f:
    f.write("a,b\n1,2\n3,4\n")

other = Program.from_source("A = EEMSRead(InFileName = missing.csv, InFieldName = a, MissingVal = [1, 2])", working_dir=d)

program = Program.from_source(
    "R = EEMSRead(InFileName = in.csv, InFieldName = a)\nW = EEMSWrite(OutFileName = out.csv, OutFieldNames = [R])\n",
    working_dir=d,
)
program.add_command(program.find_command_class("Copy"), "C", {"InFieldName": other.commands["A"]})

executed = []
for command in list(program.commands.values()) + list(other.commands.values()):
    def execute(_execute=command.execute, _name=command.result_name, **kwargs):
        executed.append(_name)
        return _execute(**kwargs)
    command.execute = execute

try:
    program.run()
    print("accepted")
except Exception as ex:
    print("rejected:", type(ex).__name__, "|", str(ex).splitlines()[0])
print("executed before the rejection:", executed, "| out.csv written:", os.path.exists(os.path.join(d, "out.csv")))
print()
print("The property demands: 'every referenced result exists' in the model, so the reference to a command that is not in")
print("program.commands is refused (or the command's own arguments are checked) BEFORE anything executes: nothing is")
print("executed and out.csv is not written.")
