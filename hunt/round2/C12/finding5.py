"""C12 finding 5: once a model has run, a new command that uses a non-data result (EEMSWrite / PrintVars) as data is no
longer rejected with ResultTypeNotValid naming the result: the error is ParameterNotValid about "value True of type
bool", which names neither the command, nor the parameter, nor the result, nor any value written in the model."""
from __future__ import print_function
import os, sys, tempfile

sys.path.insert(0, os.getcwd())
import mpilot
from mpilot.program import Program

assert mpilot.__file__.startswith("/tmp/wt/C12/"), mpilot.__file__

d = tempfile.mkdtemp()
with open(os.path.join(d, "in.csv"), "w") as f:
    f.write("a,b\n1,2\n3,4\n")

SOURCE = "R = EEMSRead(InFileName = in.csv, InFieldName = a)\nW = EEMSWrite(OutFileName = out.csv, OutFieldNames = [R])\n"


def add_faulty_command(program):
    program.add_command(program.find_command_class("Sum"), "S", {"InFieldNames": ["R", "W"]}, lineno=3)


def attempt(label, program):
    try:
        program.run()
        print(label, "-> accepted")
    except Exception as ex:
        print(label, "->", type(ex).__name__, "|", str(ex).splitlines()[0], "| attributes:",
              {k: v for k, v in vars(ex).items() if k not in ("message",)})


fresh = Program.from_source(SOURCE, working_dir=d)
add_faulty_command(fresh)
attempt("fault added before the first run", fresh)

ran = Program.from_source(SOURCE, working_dir=d)
ran.run()
add_faulty_command(ran)
attempt("same fault added after a run    ", ran)

print()
print("The property demands: the same fault gives the same specific error, naming the offending result W")
print("(ResultTypeNotValid, result='W'), whatever was run before.")
