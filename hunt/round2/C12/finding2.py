"""C12 finding 2: a well-formed NetCDF model over scalar (0-dimensional) variables is rejected with ParameterNotValid in
the MIDDLE of the run, by the second validation inside Command.run, after other commands executed and after an output
file was written. Whether it is rejected depends on how many commands use the result."""
from __future__ import print_function
import os, sys, tempfile

sys.path.insert(0, os.getcwd())
import mpilot
from netCDF4 import Dataset
from mpilot.program import Program, EEMS_NETCDF_LIBRARIES

assert mpilot.__file__.startswith("/tmp/wt/C12/"), mpilot.__file__

d = tempfile.mkdtemp()
with Dataset(os.path.join(d, "in.nc"), "w") as ds:
    ds.createVariable("a", "f8", ())[...] = 2.0  # scalar variables are legal NetCDF
    ds.createVariable("b", "f8", ())[...] = 3.0

HEAD = """
A = EEMSRead(InFileName = in.nc, InFieldName = a)
B = EEMSRead(InFileName = in.nc, InFieldName = b)
D = AMinusB(A = A, B = B)
"""
PRINT = "P = PrintVars(InFieldNames = [D], OutFileName = printed.txt)\n"


def run(label, source):
    executed = []
    program = Program.from_source(source, libraries=EEMS_NETCDF_LIBRARIES, working_dir=d)
    for command in program.commands.values():
        def execute(_execute=command.execute, _name=command.result_name, **kwargs):
            executed.append(_name)
            return _execute(**kwargs)
        command.execute = execute
    if os.path.exists(os.path.join(d, "printed.txt")):
        os.remove(os.path.join(d, "printed.txt"))
    try:
        program.run()
        outcome = "accepted"
    except Exception as ex:
        outcome = "REJECTED with {}: {}".format(type(ex).__name__, str(ex).splitlines()[0])
    print(label, "->", outcome)
    print("    executed before the outcome:", executed, "| printed.txt written:", os.path.exists(os.path.join(d, "printed.txt")))


run("D used by Copy only          ", HEAD + "C1 = Copy(InFieldName = D)\n")
run("D used by PrintVars, then Copy", HEAD + PRINT + "C1 = Copy(InFieldName = D)\n")
run("D used by two Copy commands   ", HEAD + "C1 = Copy(InFieldName = D)\nC2 = Copy(InFieldName = D)\n")

print()
print("The property demands: every command exists, every parameter is present and of the declared kind, D is declared")
print("to return data and is not fuzzy, so the three models are accepted alike; and if it is rejected with a parameter error, that")
print("happens before any command executes and before printed.txt is written.")
