"""C12 finding 6: a number written with an exponent sign but without a decimal point (1e-5, 1E-5, 1e+5) makes the whole
model a syntax error, although 1e5, -1e5, 1.0e-5 and "1e-5" are accepted as numbers; the error (a bare SyntaxError,
not an MPilot error) names a comma or parenthesis further on, not the offending value."""
from __future__ import print_function
import os, sys, tempfile

sys.path.insert(0, os.getcwd())
import mpilot
from mpilot.program import Program

assert mpilot.__file__.startswith("/tmp/wt/C12/"), mpilot.__file__

d = tempfile.mkdtemp()
with open(os.path.join(d, "in.csv"), "w") as f:
    f.write("a,b\n1,2\n3,4\n")

for text in ("1e5", "-1e5", "1.0e-5", '"1e-5"', "1e-5", "1E-5", "1e+5"):
    source = (
        "R = EEMSRead(InFileName = in.csv, InFieldName = a)\n"
        "X = CvtToBinary(InFieldName = R, Threshold = {}, Direction = LowToHigh)".format(text)
    )
    try:
        program = Program.from_source(source, working_dir=d)
        program.run()
        print("Threshold = {:8} -> accepted, X = {}".format(text, program.commands["X"].result))
    except BaseException as ex:
        print("Threshold = {:8} -> REJECTED: {}: {}".format(text, type(ex).__name__, ex))

print()
print("The property demands: every argument here has the declared kind (a number), so all seven models are accepted;")
print("a rejection would have to be a specific error naming the offending value.")
