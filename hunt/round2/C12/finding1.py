# -*- coding: utf-8 -*-
"""C12 finding 1: a quoted string with a non-ASCII character is mangled by the lexer, so a well-formed model
(the file exists, every argument has the declared kind) is rejected, and the error names a value that is not in the
model. The same model with the value unquoted is accepted."""
from __future__ import print_function
import io, os, sys, tempfile

sys.path.insert(0, os.getcwd())
import mpilot
from mpilot.program import Program

assert mpilot.__file__.startswith("/tmp/wt/C12/"), mpilot.__file__

d = tempfile.mkdtemp()
with io.open(os.path.join(d, u"données.csv"), "w", encoding="utf-8") as f:
    f.write(u"a,b\n1,2\n3,4\n")

models = [
    (u"unquoted", u"A = EEMSRead(InFileName = données.csv, InFieldName = a)"),
    (u"double quoted", u'A = EEMSRead(InFileName = "données.csv", InFieldName = a)'),
    (u"single quoted", u"A = EEMSRead(InFileName = 'données.csv', InFieldName = a)"),
]
for label, source in models:
    program = Program.from_source(source, working_dir=d)
    try:
        program.run()
        print(label, "-> accepted, A =", program.commands["A"].result)
    except Exception as ex:
        print(label, "-> REJECTED:", type(ex).__name__, "path named by the error:", repr(getattr(ex, "path", None)))

# The error for a reference names a value that is not in the model either
try:
    Program.from_source(u'B = Copy(InFieldName = "résultat")', working_dir=d).run()
except Exception as ex:
    print("reference -> ", type(ex).__name__, "names", repr(ex.result), "; the model says", repr(u"résultat"))

print()
print("The property demands: the three models are the same well-formed model (the file exists), so all three are")
print("accepted; and a rejection names the offending value as written (donn\\xe9es.csv / r\\xe9sultat).")
