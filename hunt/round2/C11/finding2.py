"""C11 finding 2: the one load-time error that names a line in its text ("a list cannot mix values and key/value
pairs (line N)") names the line of the separating COMMA, which is neither the line of the command, nor of the
argument, nor of the list, nor of the offending key/value element."""
import os, sys
sys.path.insert(0, os.getcwd())
sys.dont_write_bytecode = True
import mpilot
assert mpilot.__file__.startswith("/tmp/wt/C11/"), mpilot.__file__
from mpilot.program import Program

src = (
    "A = Copy(\n"            # 1  command
    " InFieldName = [\n"     # 2  argument and list start here
    "  x\n"                  # 3  a value
    "\n"                     # 4
    "  ,\n"                  # 5  (just the comma)
    "\n"                     # 6
    "  k: v])\n"             # 7  the offending key/value pair
)
for i, line in enumerate(src.split("\n")[:-1], 1):
    print("%2d| %s" % (i, line))
try:
    Program.from_source(src)
    print("loaded without error")
except SyntaxError as ex:
    print("raised:", type(ex).__name__, "-", ex)
    print("lineno attribute:", ex.lineno)
print()
print("PROPERTY DEMANDS: a load-time error carries the line of the offending command (1) or argument (2; the")
print("fault injected by construction is the key/value pair on line 7), and no error carries a wrong line.")
print("The message says line 5: the line of the comma token (parser.py p_elements uses p.lineno(2)).")
