"""C11 finding 1: a valid, acyclic, long dependency chain fails with an error that carries the line of an
innocent command, and WHICH line it carries depends on how deep the caller's stack happens to be."""
import os, sys, tempfile
sys.path.insert(0, os.getcwd())
sys.dont_write_bytecode = True
import mpilot
assert mpilot.__file__.startswith("/tmp/wt/C11/"), mpilot.__file__
from mpilot.program import Program
from mpilot.exceptions import ProgramError

wd = tempfile.mkdtemp()
with open(os.path.join(wd, "x.csv"), "w") as f:
    f.write("A\n1\n2\n3\n")

N = 400  # line i+1 holds command A<i>; every command is correct, there is no cycle, no bad parameter
src = "A0 = EEMSRead(InFileName = x.csv, InFieldName = A)\n" + "".join(
    "A%d = Copy(InFieldName = A%d)\n" % (i, i - 1) for i in range(1, N)
)

def run_at_depth(depth):
    if depth:
        return run_at_depth(depth - 1)
    program = Program.from_source(src, working_dir=wd)
    try:
        program.run()
        return "ran without error"
    except ProgramError as ex:
        return "{0} lineno={1} ({2})".format(type(ex).__name__, ex.lineno, str(ex.exc)[:40])

print("source: %d correct commands, A<i> = Copy(InFieldName = A<i-1>) on line i+1" % N)
for depth in (0, 50, 100):
    print("caller stack depth +%3d ->" % depth, run_at_depth(depth))

# the command-line tool marks that line
path = os.path.join(wd, "chain.mpt")
with open(path, "w") as f:
    f.write(src)
import subprocess
out = subprocess.run(
    [sys.executable, "-c",
     "import os,sys; sys.path.insert(0, os.getcwd()); sys.dont_write_bytecode=True; "
     "from mpilot.cli.mpilot import main; main()", "eems-csv", path],
    capture_output=True, text=True, cwd=os.getcwd())
print("CLI marks:", [l for l in out.stderr.splitlines() if l.startswith("-->")])
print()
print("PROPERTY DEMANDS: no error ever carries a wrong line. No command of this file is at fault, yet the error")
print("carries (and the CLI marks with -->) the line of whichever Copy command happened to exhaust the interpreter")
print("stack; the same unchanged file is blamed on a different line when run() is called from a deeper stack.")
