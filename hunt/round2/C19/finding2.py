"""C19 finding 2: a requested library that defines the same command name twice does NOT fail at construction;
the second definition is dropped silently and the name resolves to the first one."""
import os, sys, tempfile, textwrap

sys.path.insert(0, os.getcwd())
import mpilot
assert mpilot.__file__.startswith("/tmp/wt/C19/"), mpilot.__file__

tmp = tempfile.mkdtemp(prefix="c19_f2_")
with open(os.path.join(tmp, "scorelib.py"), "w") as f:          # both definitions in ONE module
    f.write(textwrap.dedent('''
        from mpilot.commands import Command
        class ScoreLinear(Command):
            name = "Score"
            def execute(self, **kwargs): return "linear"
        class ScoreLog(Command):
            name = "Score"
            def execute(self, **kwargs): return "log"
    '''))
os.makedirs(os.path.join(tmp, "scorepkg"))                      # the same two definitions in TWO modules of one library
open(os.path.join(tmp, "scorepkg", "__init__.py"), "w").close()
for mod, cls, res in (("linear", "ScoreLinear", "linear"), ("log", "ScoreLog", "log")):
    with open(os.path.join(tmp, "scorepkg", mod + ".py"), "w") as f:
        f.write("from mpilot.commands import Command\nclass %s(Command):\n    name = 'Score'\n"
                "    def execute(self, **kwargs): return %r\n" % (cls, res))
sys.path.insert(1, tmp)

from mpilot.program import Program

for libs in (("scorepkg",), ("scorelib",)):
    try:
        p = Program.from_source("r = Score()", libraries=libs)
        p.run()
        print(libs, "-> constructed; Score resolves to", p.command_library["Score"].__name__, "and returns", repr(p.commands["r"].result))
        ok = True
    except Exception as e:
        print(libs, "->", type(e).__name__ + ":", e)
        ok = False
print()
print("The property demands: requesting libraries that define the same command name fails at construction.")
print("The package library (two modules) fails as demanded; the single-module library with the very same two")
print("definitions is accepted and 'Score' silently means the first class.")
print("VIOLATION" if ok else "no violation observed")
