"""C19 finding 1: constructing the SAME Program a second time fails with a spurious "duplicated commands" error
(package library whose command gets its public name from a decorator / naming helper after the class statement)."""
import os, sys, tempfile, textwrap

sys.path.insert(0, os.getcwd())
import mpilot
assert mpilot.__file__.startswith("/tmp/wt/C19/"), mpilot.__file__

tmp = tempfile.mkdtemp(prefix="c19_f1_")
os.makedirs(os.path.join(tmp, "namedlib"))
open(os.path.join(tmp, "namedlib", "__init__.py"), "w").close()
with open(os.path.join(tmp, "namedlib", "cmds.py"), "w") as f:
    f.write(textwrap.dedent('''
        from mpilot.commands import Command

        def named(public_name):           # a naming helper: the command's name is given by a decorator
            def deco(cls):
                cls.name = public_name
                return cls
            return deco

        @named("Nice")
        class Impl(Command):              # defined exactly once, in exactly one module
            def execute(self, **kwargs):
                return "nice"
    '''))
sys.path.insert(1, tmp)

from mpilot.program import Program
from mpilot.commands import Command


def attempt(label, libs):
    try:
        p = Program(libraries=libs)
        print("%-28s -> %s" % (label, sorted((n, c.__module__) for n, c in p.command_library.items())))
        return True
    except Exception as e:
        print("%-28s -> %s: %s" % (label, type(e).__name__, e))
        return False


first = attempt("1st Program(('namedlib',))", ("namedlib",))
second = attempt("2nd Program(('namedlib',))", ("namedlib",))
third = attempt("3rd, via the sub-module name", ("namedlib.cmds",))
print("registry entries for namedlib:",
      sorted((i.module, i.command.__name__, i.command.name) for i in Command.get_commands() if i.module.startswith("namedlib")))
print()
print("The property demands: the same libraries give the same commands whatever Programs were built earlier in the")
print("process; 'Nice' is defined by one class statement in one module, so there is nothing duplicated to report.")
print("VIOLATION" if first and not (second and third) else "no violation observed")
