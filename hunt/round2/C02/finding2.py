# C02 finding 2: NetCDF EEMSRead range-checks the declared missing value as if it were data (run: cd /tmp/wt/C02 && /venv/bin/python /tmp/wt/C02.out/finding2.py)
import os, sys, tempfile, warnings
sys.path.insert(0, os.getcwd())
import numpy
import mpilot
assert mpilot.__file__.startswith("/tmp/wt/C02/"), mpilot.__file__
from mpilot.program import Program, EEMS_CSV_LIBRARIES, EEMS_NETCDF_LIBRARIES
warnings.simplefilter("ignore")


def cells(arr):
    """ a result as a list, None for a missing cell """
    return [None if m else v for v, m in zip(numpy.ma.getdata(arr).ravel().tolist(), numpy.ma.getmaskarray(arr).ravel().tolist())]


def attempt(title, source, show, libraries=EEMS_CSV_LIBRARIES, wd=None, csv=None):
    """ runs a model (d.csv = csv) and prints the named results, or the error """
    wd = wd or tempfile.mkdtemp()
    if csv is not None:
        with open(os.path.join(wd, "d.csv"), "w") as f:
            f.write(csv)
    try:
        program = Program.from_source(source, libraries=libraries, working_dir=wd)
        program.run()
        for name in show:
            print("   %-4s = %s" % (name, cells(program.commands[name].result)))
    except Exception as exc:
        print("   %s -> %s: %s" % (title, type(exc).__name__, str(exc).split("\n")[0][:160]))


from netCDF4 import Dataset

wd = tempfile.mkdtemp()
with Dataset(os.path.join(wd, "d.nc"), "w") as ds:
    ds.createDimension("x", 4)
    # no _FillValue attribute: the file marks missing cells with -9999, which the model declares with MissingValue
    ds.createVariable("pos", "f8", ("x",))[:] = [0.6, -9999, 5, 1.0]
    ds.createVariable("cnt", "i4", ("x",))[:] = [6, -9999, 5, 1]
    ds.createVariable("fz", "f8", ("x",))[:] = [0.6, -9999, -0.5, 1.0]

print("Float / Integer: the declared missing value is a missing cell (as the property demands):")
attempt("Float", "a = EEMSRead(InFileName=d.nc, InFieldName=pos, DataType=Float, MissingValue=-9999)", ["a"], EEMS_NETCDF_LIBRARIES, wd)
attempt("Integer", "a = EEMSRead(InFileName=d.nc, InFieldName=cnt, DataType=Integer, MissingValue=-9999)", ["a"], EEMS_NETCDF_LIBRARIES, wd)
print("Positive Float / Positive Integer / Fuzzy: the same table, the same missing cells -> the model cannot be evaluated:")
attempt("Positive Float", 'a = EEMSRead(InFileName=d.nc, InFieldName=pos, DataType="Positive Float", MissingValue=-9999)', ["a"], EEMS_NETCDF_LIBRARIES, wd)
attempt("Positive Integer", 'a = EEMSRead(InFileName=d.nc, InFieldName=cnt, DataType="Positive Integer", MissingValue=-9999)', ["a"], EEMS_NETCDF_LIBRARIES, wd)
attempt("Fuzzy", "a = EEMSRead(InFileName=d.nc, InFieldName=fz, DataType=Fuzzy, MissingValue=-9999)\nn = FuzzyNot(InFieldName=a)", ["a", "n"], EEMS_NETCDF_LIBRARIES, wd)
print("Property demands: a = [0.6, None, 5.0, 1.0] / [6, None, 5, 1] / [0.6, None, -0.5, 1.0] and n = [-0.6, None, 0.5, -1.0]")
