# C02 finding 5: finite quotients above 1/tiny (4.49e307), and infinite cells, become MISSING cells in every dividing command (run: cd /tmp/wt/C02 && /venv/bin/python /tmp/wt/C02.out/finding5.py)
import os, sys, tempfile, warnings
sys.path.insert(0, os.getcwd())
import numpy
import mpilot
assert mpilot.__file__.startswith("/tmp/wt/C02/"), mpilot.__file__
from mpilot.program import Program, EEMS_CSV_LIBRARIES, EEMS_NETCDF_LIBRARIES
warnings.simplefilter("ignore")


def cells(arr):
    """ a result as a list, None for a missing cell """
    return [None if m else v for v, m in zip(numpy.ma.getdata(arr).ravel().tolist(), numpy.ma.getmaskarray(arr).ravel().tolist())]


def attempt(title, source, show, libraries=EEMS_CSV_LIBRARIES, wd=None, csv=None):
    """ runs a model (d.csv = csv) and prints the named results, or the error """
    wd = wd or tempfile.mkdtemp()
    if csv is not None:
        with open(os.path.join(wd, "d.csv"), "w") as f:
            f.write(csv)
    try:
        program = Program.from_source(source, libraries=libraries, working_dir=wd)
        program.run()
        for name in show:
            print("   %-4s = %s" % (name, cells(program.commands[name].result)))
    except Exception as exc:
        print("   %s -> %s: %s" % (title, type(exc).__name__, str(exc).split("\n")[0][:160]))


CSV = "a,b\n1,1e-308\n1e308,3\n4e307,5\ninf,1\n-inf,1\n6,3\n"
source = """
q  = ADividedByB(A = a, B = b)
mn = Mean(InFieldNames = [a, b])
wm = WeightedMean(InFieldNames = [a, b], Weights = [1, 1])
f  = CvtToFuzzy(InFieldName = a, TrueThreshold = 5, FalseThreshold = 0)
fu = FuzzyUnion(InFieldNames = [f, f])
bi = CvtToBinary(InFieldName = a, Threshold = 5, Direction = LowToHigh)
cu = CvtToFuzzyCurve(InFieldName = a, RawValues = [0, 5], FuzzyValues = [-1, 1])
a = EEMSRead(InFileName = d.csv, InFieldName = a)
b = EEMSRead(InFileName = d.csv, InFieldName = b)
"""
print("table (no missing cells at all):"); print(CSV)
attempt("model", source, ["a", "b", "q", "mn", "wm", "f", "fu", "bi", "cu"], csv=CSV)
print("""Mathematical evaluation (all representable doubles):
   q  = [1e308, 3.33e307, 8e306, inf, -inf, 2.0]      library: cells 0, 3, 4 missing
   mn = wm = [0.5, 5e307, 2e307, inf, -inf, 4.5]      library: cells 1, 3, 4 missing (1e308+3 is finite, so is its half)
   f  = clip((a-5)*(-2)/(0-5)+1) = [-0.6, 1, 1, 1, -1, 1]  library: cells 1, 3, 4 missing, and so is everything computed from f (fu)
   (CvtToFuzzyCurve with the same two control points and CvtToBinary do give 1/-1 and 1/0 for those cells)""")
