# C02 finding 6: FuzzySelectedUnion: an integer-valued float NumberToConsider crashes, 0 and negative numbers silently select other cells (run: cd /tmp/wt/C02 && /venv/bin/python /tmp/wt/C02.out/finding6.py)
import os, sys, tempfile, warnings
sys.path.insert(0, os.getcwd())
import numpy
import mpilot
assert mpilot.__file__.startswith("/tmp/wt/C02/"), mpilot.__file__
from mpilot.program import Program, EEMS_CSV_LIBRARIES, EEMS_NETCDF_LIBRARIES
warnings.simplefilter("ignore")


def cells(arr):
    """ a result as a list, None for a missing cell """
    return [None if m else v for v, m in zip(numpy.ma.getdata(arr).ravel().tolist(), numpy.ma.getmaskarray(arr).ravel().tolist())]


def attempt(title, source, show, libraries=EEMS_CSV_LIBRARIES, wd=None, csv=None):
    """ runs a model (d.csv = csv) and prints the named results, or the error """
    wd = wd or tempfile.mkdtemp()
    if csv is not None:
        with open(os.path.join(wd, "d.csv"), "w") as f:
            f.write(csv)
    try:
        program = Program.from_source(source, libraries=libraries, working_dir=wd)
        program.run()
        for name in show:
            print("   %-4s = %s" % (name, cells(program.commands[name].result)))
    except Exception as exc:
        print("   %s -> %s: %s" % (title, type(exc).__name__, str(exc).split("\n")[0][:160]))


CSV = "a,b,c\n0,5,10\n10,0,5\n"
source = """
s = FuzzySelectedUnion(InFieldNames = [fa, fb, fc], TruestOrFalsest = %s, NumberToConsider = %s)
fa = CvtToFuzzy(InFieldName = a, TrueThreshold = 10, FalseThreshold = 0)
fb = CvtToFuzzy(InFieldName = b, TrueThreshold = 10, FalseThreshold = 0)
fc = CvtToFuzzy(InFieldName = c, TrueThreshold = 10, FalseThreshold = 0)
a = EEMSRead(InFileName = d.csv, InFieldName = a)
b = EEMSRead(InFileName = d.csv, InFieldName = b)
c = EEMSRead(InFileName = d.csv, InFieldName = c)
"""
print("inputs: fa = [-1, 1], fb = [0, -1], fc = [1, 0]")
for tf, n in (("Truest", "2"), ("Truest", "2.0"), ("Truest", "0"), ("Falsest", "0"), ("Truest", "-1"), ("Falsest", "-2")):
    print("TruestOrFalsest = %s, NumberToConsider = %s" % (tf, n))
    attempt("run", source % (tf, n), ["s"], csv=CSV)
print("""Property demands: NumberToConsider = 2.0 is the number 2 -> s = [0.5, 0.5] (every other Number parameter takes 2.0 for 2);
a count of 0 or below selects no cells: an error (as for a count above the number of inputs), not the mean of
all three inputs (Truest, 0), an all-missing result (Falsest, 0), or the mean of 'all but the falsest' (Truest, -1).""")
