# C02 finding 4: MissingVal = nan is accepted and masks nothing (CSV and NetCDF) (run: cd /tmp/wt/C02 && /venv/bin/python /tmp/wt/C02.out/finding4.py)
import os, sys, tempfile, warnings
sys.path.insert(0, os.getcwd())
import numpy
import mpilot
assert mpilot.__file__.startswith("/tmp/wt/C02/"), mpilot.__file__
from mpilot.program import Program, EEMS_CSV_LIBRARIES, EEMS_NETCDF_LIBRARIES
warnings.simplefilter("ignore")


def cells(arr):
    """ a result as a list, None for a missing cell """
    return [None if m else v for v, m in zip(numpy.ma.getdata(arr).ravel().tolist(), numpy.ma.getmaskarray(arr).ravel().tolist())]


def attempt(title, source, show, libraries=EEMS_CSV_LIBRARIES, wd=None, csv=None):
    """ runs a model (d.csv = csv) and prints the named results, or the error """
    wd = wd or tempfile.mkdtemp()
    if csv is not None:
        with open(os.path.join(wd, "d.csv"), "w") as f:
            f.write(csv)
    try:
        program = Program.from_source(source, libraries=libraries, working_dir=wd)
        program.run()
        for name in show:
            print("   %-4s = %s" % (name, cells(program.commands[name].result)))
    except Exception as exc:
        print("   %s -> %s: %s" % (title, type(exc).__name__, str(exc).split("\n")[0][:160]))


from netCDF4 import Dataset

CSV = "a,b\n1,10\nnan,20\n3,30\n"
source = """
s = Sum(InFieldNames = [a, b])
m = Maximum(InFieldNames = [a, b])
z = CvtToFuzzyZScore(InFieldName = a)
a = EEMSRead(InFileName = d.csv, InFieldName = a, MissingVal = %s)
b = EEMSRead(InFileName = d.csv, InFieldName = b)
"""
print("CSV table whose missing cells are marked nan, declared with MissingVal = nan:")
attempt("nan", source % "nan", ["a", "s", "m", "z"], csv=CSV)
print("the same table with the marker -9999 (what the property demands for the nan table as well):")
attempt("-9999", source % "-9999", ["a", "s", "m", "z"], csv=CSV.replace("nan", "-9999"))
print("MissingVal = nan with DataType = Integer:")
attempt("nan Integer", "a = EEMSRead(InFileName = d.csv, InFieldName = b, MissingVal = nan, DataType = Integer)", ["a"], csv=CSV)

wd = tempfile.mkdtemp()
with Dataset(os.path.join(wd, "d.nc"), "w") as ds:
    ds.createDimension("x", 3)
    ds.createVariable("a", "f8", ("x",))[:] = [1, float("nan"), 3]
print("NetCDF, MissingValue = nan:")
attempt("nc", "a = EEMSRead(InFileName = d.nc, InFieldName = a, MissingValue = nan)\ns = Sum(InFieldNames = [a, a])", ["a", "s"], EEMS_NETCDF_LIBRARIES, wd)
print("Property demands: the cell declared missing is a missing cell (None) in a and in every result computed from it;")
print("instead NaN is computed with as a value: s gets NaN, Maximum silently picks the other operand, and the one NaN cell makes EVERY cell of z missing.")
