# C02 finding 1: a Copy of fuzzy data is not fuzzy data (run: cd /tmp/wt/C02 && /venv/bin/python /tmp/wt/C02.out/finding1.py)
import os, sys, tempfile, warnings
sys.path.insert(0, os.getcwd())
import numpy
import mpilot
assert mpilot.__file__.startswith("/tmp/wt/C02/"), mpilot.__file__
from mpilot.program import Program, EEMS_CSV_LIBRARIES, EEMS_NETCDF_LIBRARIES
warnings.simplefilter("ignore")


def cells(arr):
    """ a result as a list, None for a missing cell """
    return [None if m else v for v, m in zip(numpy.ma.getdata(arr).ravel().tolist(), numpy.ma.getmaskarray(arr).ravel().tolist())]


def attempt(title, source, show, libraries=EEMS_CSV_LIBRARIES, wd=None, csv=None):
    """ runs a model (d.csv = csv) and prints the named results, or the error """
    wd = wd or tempfile.mkdtemp()
    if csv is not None:
        with open(os.path.join(wd, "d.csv"), "w") as f:
            f.write(csv)
    try:
        program = Program.from_source(source, libraries=libraries, working_dir=wd)
        program.run()
        for name in show:
            print("   %-4s = %s" % (name, cells(program.commands[name].result)))
    except Exception as exc:
        print("   %s -> %s: %s" % (title, type(exc).__name__, str(exc).split("\n")[0][:160]))


CSV = "a\n1\n3\n-9999\n4\n"
READ = "a = EEMSRead(InFileName=d.csv, InFieldName=a, MissingVal=-9999)\nf = CvtToFuzzy(InFieldName=a, TrueThreshold=4, FalseThreshold=0)\n"

print("1. FuzzyNot(f) where f is fuzzy (reference):")
attempt("direct", READ + "n = FuzzyNot(InFieldName=f)", ["f", "n"], csv=CSV)
print("2. FuzzyNot(Copy(f)): Copy(f) has exactly the cells of f, so the property demands the same n:")
attempt("through Copy", READ + "c = Copy(InFieldName=f)\nn = FuzzyNot(InFieldName=c)", ["n"], csv=CSV)
print("3. the same with FuzzyOr, FuzzyUnion, CvtFromFuzzy:")
for cmd in ("FuzzyOr(InFieldNames=[c, f])", "FuzzyUnion(InFieldNames=[f, c])", "CvtFromFuzzy(InFieldName=c, TrueThreshold=1, FalseThreshold=0)"):
    attempt(cmd, READ + "c = Copy(InFieldName=f)\nn = " + cmd, ["n"], csv=CSV)
print("4. and the other way round: the fuzzy copy is ACCEPTED by inputs that refuse fuzzy data (Sum refuses f itself):")
attempt("Sum([f, a])", READ + "s = Sum(InFieldNames=[f, a])", ["s"], csv=CSV)
attempt("Sum([Copy(f), a])", READ + "c = Copy(InFieldName=f)\ns = Sum(InFieldNames=[c, a])", ["s"], csv=CSV)
print("Property: 'Any data result may feed any data input of compatible fuzziness' -- Copy(f) is the fuzzy data f,")
print("but the library types it as non-fuzzy: fuzzy inputs reject it and non-fuzzy inputs take it.")
