# C02 finding 3: NetCDF EEMSRead(DataType=Integer) rounds a float64 variable but truncates a float32 one (run: cd /tmp/wt/C02 && /venv/bin/python /tmp/wt/C02.out/finding3.py)
import os, sys, tempfile, warnings
sys.path.insert(0, os.getcwd())
import numpy
import mpilot
assert mpilot.__file__.startswith("/tmp/wt/C02/"), mpilot.__file__
from mpilot.program import Program, EEMS_CSV_LIBRARIES, EEMS_NETCDF_LIBRARIES
warnings.simplefilter("ignore")


def cells(arr):
    """ a result as a list, None for a missing cell """
    return [None if m else v for v, m in zip(numpy.ma.getdata(arr).ravel().tolist(), numpy.ma.getmaskarray(arr).ravel().tolist())]


def attempt(title, source, show, libraries=EEMS_CSV_LIBRARIES, wd=None, csv=None):
    """ runs a model (d.csv = csv) and prints the named results, or the error """
    wd = wd or tempfile.mkdtemp()
    if csv is not None:
        with open(os.path.join(wd, "d.csv"), "w") as f:
            f.write(csv)
    try:
        program = Program.from_source(source, libraries=libraries, working_dir=wd)
        program.run()
        for name in show:
            print("   %-4s = %s" % (name, cells(program.commands[name].result)))
    except Exception as exc:
        print("   %s -> %s: %s" % (title, type(exc).__name__, str(exc).split("\n")[0][:160]))


from netCDF4 import Dataset

wd = tempfile.mkdtemp()
values = [0.75, 1.75, 2.5, -2.75]  # exactly representable in float32 and float64: the two variables hold the SAME numbers
with Dataset(os.path.join(wd, "d.nc"), "w") as ds:
    ds.createDimension("x", 4)
    ds.createVariable("f32", "f4", ("x",))[:] = values
    ds.createVariable("f64", "f8", ("x",))[:] = values

source = """
d = AMinusB(A = a64, B = a32)
a32 = EEMSRead(InFileName = d.nc, InFieldName = f32, DataType = Integer)
a64 = EEMSRead(InFileName = d.nc, InFieldName = f64, DataType = Integer)
"""
print("table values (both variables):", values)
attempt("read", source, ["a64", "a32", "d"], EEMS_NETCDF_LIBRARIES, wd)
print("Property demands: one meaning of 'read as Integer' (the command's doc: 'converting floats to nearest int'),")
print("so a32 == a64 == [1, 2, 2, -3] and d == [0, 0, 0, 0]; the float32 column is truncated toward zero instead.")
