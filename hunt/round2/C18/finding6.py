"""C18 finding 6: element types / contents EEMSWrite cannot keep apart from the missing marker or cannot write at all."""
import os, sys
sys.path.insert(0, os.getcwd())
import tempfile, warnings
import numpy
from netCDF4 import Dataset
import mpilot
assert mpilot.__file__.startswith("/tmp/wt/C18/"), mpilot.__file__
from mpilot.commands import Command
from mpilot.libraries.eems.netcdf.io import EEMSWrite, EEMSRead

warnings.simplefilter("ignore")


def result(name, arr):
    c = Command(name)
    c.is_finished = True
    c._result = arr
    return c


def roundtrip(arr, **read):
    d = tempfile.mkdtemp()
    with Dataset(os.path.join(d, "t.nc"), "w") as ds:
        ds.createDimension("x", arr.shape[0])
        ds.createVariable("tmpl", "f8", ("x",))
    EEMSWrite("W").execute(
        OutFileName=os.path.join(d, "o.nc"), OutFieldNames=[result("a", arr)],
        DimensionFileName=os.path.join(d, "t.nc"), DimensionFieldName="tmpl",
    )
    return EEMSRead("R").execute(InFileName=os.path.join(d, "o.nc"), InFieldName="a", **read)


violated = False

# (a) a byte grid that uses all 256 values and has one missing cell
a = numpy.ma.array(numpy.arange(257) % 256, mask=[0] * 256 + [1], dtype="u1")
b = roundtrip(a, DataType=numpy.uint)
wrong = numpy.flatnonzero(numpy.ma.getmaskarray(a) != numpy.ma.getmaskarray(b))
print("(a) uint8 grid, values 0..255 and one missing cell: cells whose missing state changed:", wrong.tolist(),
      "(value written there: %s)" % a.data[wrong].tolist())
violated = violated or wrong.size > 0

# (b) plain (unmasked) numpy arrays are Data for every command (params.DataParameter), boolean grids likewise
for title, arr in (
    ("plain float64 ndarray", numpy.array([1.0, 2.0, 3.0])),
    ("boolean masked array ", numpy.ma.array([True, False, True], mask=[0, 1, 0])),
    ("float16 masked array ", numpy.ma.array([1.0, 2.0, 3.0], mask=[0, 1, 0], dtype="f2")),
):
    try:
        print("(b) %s -> %s" % (title, roundtrip(arr).tolist()))
    except Exception as e:
        violated = True
        print("(b) %s -> %s: %s" % (title, type(e).__name__, str(e)[:110]))

print()
print("property demands: for every element type and placement of missing cells, what is read back is missing exactly")
print("where a written result was missing, with the same values")
print("VIOLATED" if violated else "holds")
