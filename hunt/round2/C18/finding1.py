"""C18 finding 1: EEMSWrite changes the template's coordinate values (valid_min/valid_max/valid_range, packed int64)."""
import os, sys
sys.path.insert(0, os.getcwd())
import tempfile, warnings
import numpy
from netCDF4 import Dataset
import mpilot
assert mpilot.__file__.startswith("/tmp/wt/C18/"), mpilot.__file__
from mpilot.program import Program, EEMS_NETCDF_LIBRARIES

warnings.simplefilter("ignore")
d = tempfile.mkdtemp()

# A template whose longitudes run 0..270 although the variable says valid_min/valid_max = -180/180
# (sloppy but legal metadata), and a packed 64-bit time axis.
with Dataset(os.path.join(d, "t.nc"), "w") as ds:
    ds.createDimension("time", 2)
    ds.createDimension("lon", 4)
    t = ds.createVariable("time", "i8", ("time",))
    t.scale_factor = 2.5
    t.add_offset = 1000000.0
    t.set_auto_maskandscale(False)
    t[:] = numpy.array([4975962575558525783, 7], dtype="i8")
    lon = ds.createVariable("lon", "f4", ("lon",))
    lon.units = "degrees_east"
    lon.valid_min = numpy.float32(-180)
    lon.valid_max = numpy.float32(180)
    lon.set_auto_mask(False)
    lon[:] = [0, 90, 180, 270]
    ds.createVariable("elev", "f8", ("time", "lon"))[:] = numpy.arange(8.0).reshape(2, 4)

source = """
A = EEMSRead(InFileName = t.nc, InFieldName = elev)
W = EEMSWrite(OutFileName = o.nc, OutFieldNames = [A], DimensionFileName = t.nc, DimensionFieldName = elev)
"""
Program.from_source(source, libraries=EEMS_NETCDF_LIBRARIES, working_dir=d).run()

bad = False
with Dataset(os.path.join(d, "t.nc")) as i, Dataset(os.path.join(d, "o.nc")) as o:
    i.set_auto_maskandscale(False)
    o.set_auto_maskandscale(False)
    for name in ("lon", "time"):
        a, b = i[name][:], o[name][:]
        same = numpy.array_equal(a, b)
        bad = bad or not same
        print("%-5s template (stored values): %s" % (name, a.tolist()))
        print("%-5s written  (stored values): %s  %s" % (name, b.tolist(), "same" if same else "CHANGED"))

print()
print("property demands: the template's dimension variables and coordinate values are copied unchanged")
print("VIOLATED" if bad else "holds")
