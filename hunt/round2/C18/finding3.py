"""C18 finding 3: the documented data types 'Positive Float' / 'Positive Integer' cannot be given as documented."""
import os, sys
sys.path.insert(0, os.getcwd())
import tempfile, warnings
import numpy
from netCDF4 import Dataset
import mpilot
assert mpilot.__file__.startswith("/tmp/wt/C18/"), mpilot.__file__
from mpilot.program import Program, EEMS_NETCDF_LIBRARIES

warnings.simplefilter("ignore")
d = tempfile.mkdtemp()
with Dataset(os.path.join(d, "in.nc"), "w") as ds:
    ds.createDimension("x", 3)
    ds.createVariable("good", "f8", ("x",))[:] = [0.5, 1, 2]
    ds.createVariable("bad", "f8", ("x",))[:] = [0.5, -1, 2]

failed = 0
for field in ("good", "bad"):
    for data_type in ("Positive Float", "Positive Integer", '"Positive Float"', '"Positive Integer"'):
        source = "A = EEMSRead(InFileName = in.nc, InFieldName = %s, DataType = %s)" % (field, data_type)
        try:
            program = Program.from_source(source, libraries=EEMS_NETCDF_LIBRARIES, working_dir=d)
            program.run()
            r = program.commands["A"].result
            outcome = "%s %s" % (r.dtype, r.tolist())
        except Exception as e:
            outcome = "%s: %s" % (type(e).__name__, str(e).split("\n")[0][:140])
            if not data_type.startswith('"') and type(e).__name__ == "ParameterNotValid":
                failed += 1
        print("%-4s DataType = %-20s -> %s" % (field, data_type, outcome))

print()
print("docs (user/index.rst): 'String parameters may be surrounded by quotes, or not'; 'Param = This is a string.';")
print("                        Data Type: 'Param = Float'; lib-eems-netcdf.rst lists ``Positive Float``, ``Positive Integer``")
print("property demands: reading honours the documented optional parameters, among them the positive type check")
print("VIOLATED (the unquoted form is refused: the value reaches the command as 'PositiveFloat')" if failed else "holds")
