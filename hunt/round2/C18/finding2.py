"""C18 finding 2: a missing scalar (0-dimensional) result is written, but cannot be read back with any read parameters."""
import os, sys
sys.path.insert(0, os.getcwd())
import tempfile, warnings
import numpy
from netCDF4 import Dataset
import mpilot
assert mpilot.__file__.startswith("/tmp/wt/C18/"), mpilot.__file__
from mpilot.commands import Command
from mpilot.program import Program, EEMS_NETCDF_LIBRARIES
from mpilot.libraries.eems.netcdf.io import EEMSWrite

warnings.simplefilter("ignore")
d = tempfile.mkdtemp()

with Dataset(os.path.join(d, "t.nc"), "w") as ds:
    ds.createVariable("tmpl", "f8", ())  # a scalar variable: grid shape ()

result = Command("a")
result.is_finished = True
result._result = numpy.ma.array(0.5, mask=True)  # shape (), its only cell missing

EEMSWrite("W").execute(
    OutFileName=os.path.join(d, "o.nc"), OutFieldNames=[result], DimensionFileName=os.path.join(d, "t.nc"),
    DimensionFieldName="tmpl",
)
with Dataset(os.path.join(d, "o.nc")) as ds:
    print("written:", ds["a"].shape, repr(ds["a"][:]))

failures = 0
for data_type in ("Float", "Integer", '"Positive Float"', '"Positive Integer"', "Fuzzy"):
    for missing in ("", ", MissingValue = 0"):
        source = "A = EEMSRead(InFileName = o.nc, InFieldName = a, DataType = %s%s)" % (data_type, missing)
        program = Program.from_source(source, libraries=EEMS_NETCDF_LIBRARIES, working_dir=d)
        try:
            program.run()
            r = program.commands["A"].result
            print("%-45s -> shape %s mask %s" % ("DataType = " + data_type + missing, r.shape, numpy.ma.getmaskarray(r).tolist()))
        except Exception as e:
            failures += 1
            print("%-45s -> %s: %s" % ("DataType = " + data_type + missing, type(e).__name__, str(e).split("\n")[0][:110]))

print()
print("property demands: reading back returns an array of shape () whose cell is missing, for every combination of")
print("the optional read parameters (the same works for shapes (1,), (1, 1), (0,) and for an unmasked scalar)")
print("VIOLATED (%d of 10 reads failed with an internal error)" % failures if failures else "holds")
