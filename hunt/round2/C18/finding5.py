"""C18 finding 5: a MissingValue that no integer cell can equal (inf, 1e400, nan) makes an integer read fail."""
import os, sys
sys.path.insert(0, os.getcwd())
import tempfile, warnings
import numpy
from netCDF4 import Dataset
import mpilot
assert mpilot.__file__.startswith("/tmp/wt/C18/"), mpilot.__file__
from mpilot.program import Program, EEMS_NETCDF_LIBRARIES

warnings.simplefilter("ignore")
d = tempfile.mkdtemp()
with Dataset(os.path.join(d, "in.nc"), "w") as ds:
    ds.createDimension("x", 3)
    ds.createVariable("v", "i4", ("x",))[:] = [1, 2, 3]
    ds.createVariable("f", "f8", ("x",))[:] = [1, numpy.inf, 3]

failures = 0
for args in (
    "f, MissingValue = inf",
    "f, MissingValue = 1e400",
    "v, MissingValue = inf",
    "v, MissingValue = inf, DataType = Integer",
    "v, MissingValue = 1e400, DataType = Integer",
    'v, MissingValue = -inf, DataType = "Positive Integer"',
    "v, MissingValue = nan, DataType = Integer",
    "f, MissingValue = 1" + "0" * 400,
):
    source = "A = EEMSRead(InFileName = in.nc, InFieldName = %s)" % args
    try:
        program = Program.from_source(source, libraries=EEMS_NETCDF_LIBRARIES, working_dir=d)
        program.run()
        r = program.commands["A"].result
        print("%-60s -> %s %s" % (args[:60], r.dtype, r.tolist()))
    except Exception as e:
        failures += 1
        print("%-60s -> %s: %s" % (args[:60], type(e).__name__, str(e).split("\n")[0][:120]))

print()
print("property demands: the optional MissingValue is honoured with every data type: cells equal to it are missing,")
print("the others are returned (a value no cell can hold leaves every cell in place, as the Float reads above show)")
print("VIOLATED (%d reads ended in an internal error)" % failures if failures else "holds")
