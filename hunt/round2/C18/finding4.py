"""C18 finding 4: legal templates that EEMSWrite cannot copy (same dimension twice; labelled axis stored as char(n, len))."""
import os, sys
sys.path.insert(0, os.getcwd())
import tempfile, warnings
import numpy
from netCDF4 import Dataset
import mpilot
assert mpilot.__file__.startswith("/tmp/wt/C18/"), mpilot.__file__
from mpilot.commands import Command
from mpilot.libraries.eems.netcdf.io import EEMSWrite, EEMSRead

warnings.simplefilter("ignore")


def result(name, arr):
    c = Command(name)
    c.is_finished = True
    c._result = arr
    return c


def attempt(title, build, arr):
    d = tempfile.mkdtemp()
    with Dataset(os.path.join(d, "t.nc"), "w") as ds:
        build(ds)
    try:
        EEMSWrite("W").execute(
            OutFileName=os.path.join(d, "o.nc"), OutFieldNames=[result("a", arr)],
            DimensionFileName=os.path.join(d, "t.nc"), DimensionFieldName="tmpl",
        )
        back = EEMSRead("R").execute(InFileName=os.path.join(d, "o.nc"), InFieldName="a")
        print("%s: written and read back %s" % (title, back.tolist()))
        return True
    except Exception as e:
        print("%s: %s: %s" % (title, type(e).__name__, str(e)[:150]))
        return False


def square(ds):  # e.g. a covariance / distance matrix: tmpl(site, site)
    ds.createDimension("site", 3)
    ds.createVariable("site", "f8", ("site",))[:] = [1, 2, 3]
    ds.createVariable("tmpl", "f8", ("site", "site"))


def labelled(ds):  # classic-model string coordinate: char station(station, strlen)
    ds.createDimension("station", 3)
    ds.createDimension("strlen", 4)
    ds.createVariable("station", "S1", ("station", "strlen"))[:] = numpy.array(
        [list("abcd"), list("efgh"), list("ijkl")], dtype="S1"
    )
    ds.createVariable("tmpl", "f8", ("station",))


ok1 = attempt("tmpl(site, site)              ", square, numpy.ma.array(numpy.arange(9.0).reshape(3, 3), mask=numpy.eye(3)))
ok2 = attempt("char station(station, strlen)", labelled, numpy.ma.array([1.0, 2.0, 3.0], mask=[0, 1, 0]))

print()
print("property demands: results of the template variable's shape are written and read back unchanged, the")
print("template's dimension variables copied unchanged")
print("holds" if ok1 and ok2 else "VIOLATED (internal errors; a truncated output file is left behind)")
