import sys, os
sys.path.insert(0, os.getcwd())
import tempfile, warnings
import numpy
import mpilot
assert mpilot.__file__.startswith("/tmp/wt/C17/"), mpilot.__file__
from mpilot.program import Program
from mpilot.libraries.eems.csv.io import EEMSRead, EEMSWrite

D = tempfile.mkdtemp()

def put(name, text):
    path = os.path.join(D, name)
    with open(path, "w", newline="", encoding="utf-8") as f:
        f.write(text)
    return path

def read(path, field, **kw):
    p = Program()
    args = dict(InFileName=path, InFieldName=field)
    args.update(kw)
    p.add_command(EEMSRead, "r", args)
    return p.commands["r"].result

def attempt(fn, *a, **kw):
    try:
        return fn(*a, **kw)
    except Exception as e:
        first = str(e).split("\n")[0]
        return "%s (lineno=%r): %s" % (type(e).__name__, getattr(e, "lineno", None), first)

from mpilot.commands import Command

def result(name, arr):
    c = Command(name)
    c.is_finished = True
    c._result = arr
    return c

def write(path, cols):
    p = Program()
    cmds = [result(n, a) for n, a in cols]
    p.add_command(EEMSWrite, "w", dict(OutFileName=path, OutFieldNames=cmds))
    return p.commands["w"].result

a = numpy.ma.array([1.5, 2.5])
path = os.path.join(D, "out.csv")
name = u"\ufeffq"     # a name that starts with U+FEFF ZERO WIDTH NO-BREAK SPACE

write(path, [(name, a), ("b", a)])
print("file bytes        :", open(path, "rb").read())
print("read first column :", repr(attempt(read, path, name)).replace("\n", " "))
print("read as 'q'       :", repr(attempt(read, path, "q")).replace("\n", " "))
write(path, [("b", a), (name, a)])
print("same name as 2nd column:", repr(attempt(read, path, name)).replace("\n", " "))

print("""
PROPERTY: writing produces a header of the result names, and reading the written file back returns the values.
ACTUAL  : the reader strips a leading U+FEFF from the first line unconditionally, so a first column whose name
          really starts with that character is written but cannot be read back under its own name.""")
