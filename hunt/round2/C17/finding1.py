import sys, os
sys.path.insert(0, os.getcwd())
import tempfile, warnings
import numpy
import mpilot
assert mpilot.__file__.startswith("/tmp/wt/C17/"), mpilot.__file__
from mpilot.program import Program
from mpilot.libraries.eems.csv.io import EEMSRead, EEMSWrite

D = tempfile.mkdtemp()

def put(name, text):
    path = os.path.join(D, name)
    with open(path, "w", newline="", encoding="utf-8") as f:
        f.write(text)
    return path

def read(path, field, **kw):
    p = Program()
    args = dict(InFileName=path, InFieldName=field)
    args.update(kw)
    p.add_command(EEMSRead, "r", args)
    return p.commands["r"].result

def attempt(fn, *a, **kw):
    try:
        return fn(*a, **kw)
    except Exception as e:
        first = str(e).split("\n")[0]
        return "%s (lineno=%r): %s" % (type(e).__name__, getattr(e, "lineno", None), first)


# A table of small integers; the declared missing value is a finite double that no cell equals.
path = put("t.csv", "a,b\n1,10\n2,20\n3,30\n")

print("Float,   MissingVal=1e20 :", repr(attempt(read, path, "a", MissingVal=1e20)).replace("\n", " "))
for mv in (1e20, -1e300, 9.3e18, 2.0 ** 63):
    print("Integer, MissingVal=%r :" % mv, repr(attempt(read, path, "a", MissingVal=mv, DataType="Integer")).replace("\n", " "))
print("Integer, MissingVal=9e18 :", repr(attempt(read, path, "a", MissingVal=9e18, DataType="Integer")).replace("\n", " "))

print("""
PROPERTY: for every missing-value choice and both element types, the read returns the column's values
          (here [1 2 3] as int64) with exactly the cells equal to the missing value masked (here: none).
ACTUAL  : with DataType=Integer every finite missing value of magnitude >= 2**63 (1e20 is numpy's own default
          fill value) makes the read fail with UnexpectedError ("Report this issue ..."), although every cell is fine.""")
