import sys, os
sys.path.insert(0, os.getcwd())
import tempfile, warnings
import numpy
import mpilot
assert mpilot.__file__.startswith("/tmp/wt/C17/"), mpilot.__file__
from mpilot.program import Program
from mpilot.libraries.eems.csv.io import EEMSRead, EEMSWrite

D = tempfile.mkdtemp()

def put(name, text):
    path = os.path.join(D, name)
    with open(path, "w", newline="", encoding="utf-8") as f:
        f.write(text)
    return path

def read(path, field, **kw):
    p = Program()
    args = dict(InFileName=path, InFieldName=field)
    args.update(kw)
    p.add_command(EEMSRead, "r", args)
    return p.commands["r"].result

def attempt(fn, *a, **kw):
    try:
        return fn(*a, **kw)
    except Exception as e:
        first = str(e).split("\n")[0]
        return "%s (lineno=%r): %s" % (type(e).__name__, getattr(e, "lineno", None), first)


# Column "note" holds text; one of its cells has an opening quote that is never closed (a stray inch sign, say).
text = 'a,note\n1,ok\n2,"6 pipe\n3,ok\nfoo,ok\n5,ok\n'
path = put("t.csv", text)
print(text)
print("read a :", repr(attempt(read, path, "a")).replace("\n", " "))

text2 = 'a,"note\n1,ok\n2,ok\n'
path2 = put("t2.csv", text2)
print(text2)
print("read a :", repr(attempt(read, path2, "a")).replace("\n", " "))

print("""
PROPERTY: the values of column a come back in row order, unaffected by other columns, and the non-numeric
          cell "foo" is reported with its file line (5).
ACTUAL  : the stray quote in the OTHER column swallows every following line into one cell; column a silently
          comes back as [1, 2] (resp. as an empty array), rows 3.. are lost and "foo" is never reported.""")
