import sys, os
sys.path.insert(0, os.getcwd())
import tempfile, warnings
import numpy
import mpilot
assert mpilot.__file__.startswith("/tmp/wt/C17/"), mpilot.__file__
from mpilot.program import Program
from mpilot.libraries.eems.csv.io import EEMSRead, EEMSWrite

D = tempfile.mkdtemp()

def put(name, text):
    path = os.path.join(D, name)
    with open(path, "w", newline="", encoding="utf-8") as f:
        f.write(text)
    return path

def read(path, field, **kw):
    p = Program()
    args = dict(InFileName=path, InFieldName=field)
    args.update(kw)
    p.add_command(EEMSRead, "r", args)
    return p.commands["r"].result

def attempt(fn, *a, **kw):
    try:
        return fn(*a, **kw)
    except Exception as e:
        first = str(e).split("\n")[0]
        return "%s (lineno=%r): %s" % (type(e).__name__, getattr(e, "lineno", None), first)

from mpilot.commands import Command

def result(name, arr):
    c = Command(name)
    c.is_finished = True
    c._result = arr
    return c

def write(path, cols):
    p = Program()
    cmds = [result(n, a) for n, a in cols]
    p.add_command(EEMSWrite, "w", dict(OutFileName=path, OutFieldNames=cmds))
    return p.commands["w"].result

a = numpy.ma.array([0.1 + 0.2, 1.0 / 3.0, 1e-320, 123456789.123456789])
path = os.path.join(D, "out.csv")

write(path, [("a", a)])
print("default numpy print mode :", open(path).read().split(), (read(path, "a").data == a.data).all())

# Another library (or the user's session / a doctest set-up) has switched numpy to its legacy print mode.
numpy.set_printoptions(legacy="1.13")
write(path, [("a", a)])
back = read(path, "a")
print("legacy='1.13' print mode :", open(path).read().split())
print("bit-identical after re-read:", (back.data == a.data).tolist())

print("""
PROPERTY: reading a written file back returns bit-identical values for all finite doubles.
ACTUAL  : the writer hands numpy scalars to csv.writer, which formats them with str(); str() of a numpy float
          obeys numpy's process-wide print mode, so with legacy='1.13' only 12 significant digits are written.""")
