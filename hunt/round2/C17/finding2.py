import sys, os
sys.path.insert(0, os.getcwd())
import tempfile, warnings
import numpy
import mpilot
assert mpilot.__file__.startswith("/tmp/wt/C17/"), mpilot.__file__
from mpilot.program import Program
from mpilot.libraries.eems.csv.io import EEMSRead, EEMSWrite

D = tempfile.mkdtemp()

def put(name, text):
    path = os.path.join(D, name)
    with open(path, "w", newline="", encoding="utf-8") as f:
        f.write(text)
    return path

def read(path, field, **kw):
    p = Program()
    args = dict(InFileName=path, InFieldName=field)
    args.update(kw)
    p.add_command(EEMSRead, "r", args)
    return p.commands["r"].result

def attempt(fn, *a, **kw):
    try:
        return fn(*a, **kw)
    except Exception as e:
        first = str(e).split("\n")[0]
        return "%s (lineno=%r): %s" % (type(e).__name__, getattr(e, "lineno", None), first)


# One cell holds a finite double that is outside the int64 range.
path = put("t.csv", "a,b\n1,10\n2,20\n1e19,30\n4,40\n")

print("Float   :", repr(attempt(read, path, "a")).replace("\n", " "))
r = attempt(read, path, "a", DataType="Integer")
print("Integer :", repr(r).replace("\n", " "))
path2 = put("t2.csv", "a\n1\n-1.7976931348623157e308\n")
print("Integer, cell -DBL_MAX :", repr(attempt(read, path2, "a", DataType="Integer")).replace("\n", " "))
try:
    read(path, "a", DataType="Integer")
except Exception as e:
    print("file line mentioned in the message:", "line 4" in str(e), "| data file mentioned:", path in str(e))

print("""
PROPERTY: for every finite double (extremes included) and both element types the read either returns the
          values with the requested element type, or reports the offending cell with the file line (line 4 here).
ACTUAL  : the cell passes float() in the loop (io.py:61), then the whole-list conversion at io.py:78 (or :73 when
          a MissingVal is given) raises OverflowError, which escapes as UnexpectedError "Python int too large to
          convert to C long" with a traceback and "Report this issue"; neither the file nor the line is named.""")
