import sys, os
sys.path.insert(0, os.getcwd())
import tempfile, warnings
import numpy
import mpilot
assert mpilot.__file__.startswith("/tmp/wt/C17/"), mpilot.__file__
from mpilot.program import Program
from mpilot.libraries.eems.csv.io import EEMSRead, EEMSWrite

D = tempfile.mkdtemp()

def put(name, text):
    path = os.path.join(D, name)
    with open(path, "w", newline="", encoding="utf-8") as f:
        f.write(text)
    return path

def read(path, field, **kw):
    p = Program()
    args = dict(InFileName=path, InFieldName=field)
    args.update(kw)
    p.add_command(EEMSRead, "r", args)
    return p.commands["r"].result

def attempt(fn, *a, **kw):
    try:
        return fn(*a, **kw)
    except Exception as e:
        first = str(e).split("\n")[0]
        return "%s (lineno=%r): %s" % (type(e).__name__, getattr(e, "lineno", None), first)

import subprocess

# The data file has a column whose name is not ASCII; the command file names it in a quoted string.
put("t.csv", "Fläche km²,b\n1.5,10\n2.5,20\n")
src = 'r = EEMSRead(InFileName = "t.csv", InFieldName = "Fläche km²")\nw = EEMSWrite(OutFileName = "out.csv", OutFieldNames = [r])\n'
cmd = put("model.mpt", src)

print("API, InFieldName='Fläche km²' :", repr(attempt(read, os.path.join(D, "t.csv"), "Fläche km²")).replace("\n", " "))

def from_source(literal, header):
    put("t.csv", header + ",b\n1.5,10\n2.5,20\n")
    def go():
        p = Program.from_source('r = EEMSRead(InFileName = "t.csv", InFieldName = %s)\n' % literal, working_dir=D)
        p.run()
        return p.commands["r"].result
    return repr(attempt(go)).replace("\n", " ")

print("source, InFieldName = \"Fläche km²\" :", from_source('"Fläche km²"', "Fläche km²"))
print("source, InFieldName = \"日本\"       :", from_source('"日本"', "日本"))
print("source, InFieldName = \"5'\"  (header 5') :", from_source('"5\'"', "5'"))
print("source, InFieldName = 007   (header 007):", from_source('007', "007"))
print("source, InFieldName = rain mm (header 'rain mm'):", from_source('rain mm', "rain mm"))

put("t.csv", "Fläche km²,b\n1.5,10\n2.5,20\n")
r = subprocess.run([sys.executable, "-c",
                    "import sys, os; sys.path.insert(0, os.getcwd()); from mpilot.cli.mpilot import main; main()",
                    "eems-csv", cmd], capture_output=True, text=True)
print("command-line tool: exit", r.returncode)
print(r.stderr)

print("""PROPERTY: reading a column returns its values; only a header that is missing from the file is reported missing.
ACTUAL  : through a command file (Program.from_source and the mpilot command-line tool) a quoted InFieldName with
          any non-ASCII character is turned into mojibake ("FlÃ¤che kmÂ²") and the existing column is reported as
          missing; a name ending/starting with a quote character loses it; unquoted 007 becomes 7 and
          'rain mm' becomes 'rainmm'.""")
