"""mpsim - deterministic simulation with fault injection for consbio/mpilot.

See /verif/DESIGN.md.  Nothing in this package imports mpilot at module import
time: the code under test is copied from $MPSIM_REPO (default /repo) into a
private scratch directory by mpsim.loader and imported from there.
"""
