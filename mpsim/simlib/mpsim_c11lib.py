"""Plug-in commands for the line-number engine: a producer whose value does not match its declared kind, a
command whose execute() raises a foreign exception that carries a line number of its own, and a command that accepts
undeclared inputs (allow_extra_inputs) and can report a problem of its own at the line it starts on."""
from mpilot import params
from mpilot.commands import Command
from mpilot.exceptions import ParameterNotValid


class BadData(Command):
    inputs = {}
    output = params.DataParameter()

    def execute(self, **kwargs):
        return [1, 2, 3]          # declared as data, but not an array


class ForeignLineno(Command):
    inputs = {"InFieldName": params.ResultParameter(params.DataParameter())}
    output = params.DataParameter()

    def execute(self, **kwargs):
        exc = ValueError("malformed side file")
        exc.lineno = 1            # e.g. json.JSONDecodeError / SyntaxError carry the line of *their* input
        raise exc


class Passthrough(Command):
    allow_extra_inputs = True
    inputs = {"InFieldName": params.ResultParameter(params.DataParameter())}
    output = params.DataParameter()

    def execute(self, **kwargs):
        if kwargs.get("Fail"):
            raise ParameterNotValid(kwargs["Fail"], "a setting this command can work with", lineno=self.lineno)
        return kwargs["InFieldName"].result
