"""Plug-in commands for the line-number engine: a producer whose value does not match its declared kind, and a
command whose execute() raises a foreign exception that carries a line number of its own."""
from mpilot import params
from mpilot.commands import Command


class BadData(Command):
    inputs = {}
    output = params.DataParameter()

    def execute(self, **kwargs):
        return [1, 2, 3]          # declared as data, but not an array


class ForeignLineno(Command):
    inputs = {"InFieldName": params.ResultParameter(params.DataParameter())}
    output = params.DataParameter()

    def execute(self, **kwargs):
        exc = ValueError("malformed side file")
        exc.lineno = 1            # e.g. json.JSONDecodeError / SyntaxError carry the line of *their* input
        raise exc
