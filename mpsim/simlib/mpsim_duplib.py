"""A user library that defines a command name which the built-in libraries also define (C13 CLI, C19)."""
from mpilot import params
from mpilot.commands import Command


class Sum(Command):
    inputs = {"InFieldNames": params.ListParameter(params.ResultParameter())}
    output = params.DataParameter()

    def execute(self, **kwargs):
        return None
