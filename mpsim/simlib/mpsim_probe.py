"""Probe command library, loaded through the real ``libraries=`` mechanism.

The ``execute`` bodies are stubs: they ask the simulator in which order (and how
often) to pull their dependencies, log every pull on the global event sequence,
optionally raise a planned fault, and return a fresh unique token.  Everything
else on the path (Program, Command.run/result, params cleaning, parser) is real.
"""
from mpilot import params
from mpilot.commands import Command
from mpilot.exceptions import ParameterNotValid

SIM = None  # set by the engine for the duration of one run


class Token(object):
    __slots__ = ("owner", "serial")

    def __init__(self, owner, serial):
        self.owner = owner
        self.serial = serial

    def __repr__(self):
        return "Token(%s#%d)" % (self.owner, self.serial)


class TokenParameter(params.Parameter):
    def clean(self, value, program=None, lineno=None):
        if not isinstance(value, Token):
            raise ParameterNotValid(value, "Token", lineno)
        return value


def _flat(value, out):
    if isinstance(value, (list, tuple)):
        for v in value:
            _flat(v, out)
    elif value is not None:
        out.append(value)
    return out


def _names(value):
    if isinstance(value, (list, tuple)):
        return [_names(v) for v in value]
    key = getattr(value, "sim_key", None)
    return key if key is not None else getattr(value, "result_name", repr(type(value).__name__))


_ORDER = ("A", "B", "L", "N", "NN")


class _ProbeBase(Command):
    inputs = {}
    output = TokenParameter()

    def execute(self, **kwargs):
        sim = SIM
        me = getattr(self, "sim_key", None)    # stand-alone objects may share a result name with a program command
        if me is None:
            me = self.result_name
        refs = []
        shape = {}
        for pname in _ORDER:
            if pname in kwargs:
                shape[pname] = _names(kwargs[pname])
                _flat(kwargs[pname], refs)
        sim.received(self, shape)
        plan = sim.pull_plan(me, len(refs))
        step = 0
        for idx in plan:
            sim.fault_point(me, step)
            dep = refs[idx]
            before = bool(dep.is_finished)
            tok = dep.result
            sim.pulled(self, dep, tok, before)
            step += 1
        sim.fault_point(me, step)
        if getattr(type(self), "RETURNS_NONE", False):
            sim.next_serial()
            return None           # a side-effect-only plug-in
        return Token(me, sim.next_serial())


def _typed():
    return params.ResultParameter(TokenParameter(), required=False)


def _untyped():
    return params.ResultParameter(required=False)


class ProbeSrc(_ProbeBase):
    inputs = {}
    output = TokenParameter()


class ProbeSrcNoOut(_ProbeBase):
    """A producer that declares no output kind (ResultParameter.clean then skips the kind check)."""

    inputs = {}
    output = None


class ProbeOp(_ProbeBase):
    inputs = {
        "A": _typed(),
        "B": _typed(),
        "L": params.ListParameter(params.ResultParameter(TokenParameter()), required=False),
        "N": params.ListParameter(
            params.ListParameter(params.ResultParameter(TokenParameter())), required=False
        ),
        "NN": params.ListParameter(
            params.ListParameter(params.ListParameter(params.ResultParameter(TokenParameter()))),
            required=False,
        ),
    }
    output = TokenParameter()


class ProbeOpU(_ProbeBase):
    """Same wiring, references declared without an output kind."""

    inputs = {
        "A": _untyped(),
        "B": _untyped(),
        "L": params.ListParameter(params.ResultParameter(), required=False),
        "N": params.ListParameter(params.ListParameter(params.ResultParameter()), required=False),
        "NN": params.ListParameter(
            params.ListParameter(params.ListParameter(params.ResultParameter())), required=False
        ),
    }
    output = TokenParameter()


class ProbeSrcNone(_ProbeBase):
    """A side-effect-only producer: its result is None (and it declares no output kind)."""

    RETURNS_NONE = True
    inputs = {}
    output = None


class ProbeOpNone(_ProbeBase):
    """A side-effect-only operator: untyped references, result None."""

    RETURNS_NONE = True
    inputs = {
        "A": _untyped(),
        "B": _untyped(),
        "L": params.ListParameter(params.ResultParameter(), required=False),
        "N": params.ListParameter(params.ListParameter(params.ResultParameter()), required=False),
        "NN": params.ListParameter(
            params.ListParameter(params.ListParameter(params.ResultParameter())), required=False
        ),
    }
    output = None


class ProbeOpNoOut(_ProbeBase):
    """Typed references, but no declared output kind of its own (a consumer's kind check is then skipped)."""

    inputs = dict(ProbeOp.inputs)
    output = None
