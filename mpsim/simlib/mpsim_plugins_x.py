"""A sibling library whose name merely starts with the name of mpsim_plugins."""
from mpilot import params
from mpilot.libraries.eems.basic import Copy


class OnlyInX(Copy):
    inputs = {"InFieldName": params.ResultParameter(params.DataParameter())}
    output = params.DataParameter()
