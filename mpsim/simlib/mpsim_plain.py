"""A user library with a command that declares no output kind (plug-ins may do that)."""
from mpilot.commands import Command


class NoOutput(Command):
    inputs = {}

    def execute(self, **kwargs):
        return 5
