"""A user plug-in library whose commands subclass built-in EEMS commands.

The metaclass resets `inputs` and `output` for every class, so a subclass declares them again; fuzziness
(`is_fuzzy`) is an ordinary class attribute and is inherited.
"""
from mpilot import params
from mpilot.libraries.eems.basic import Sum
from mpilot.libraries.eems.fuzzy import FuzzyOr


class MyFuzzyOr(FuzzyOr):
    """Fuzzy by inheritance: it does not spell out is_fuzzy itself."""

    inputs = {"InFieldNames": params.ListParameter(params.ResultParameter(params.DataParameter(), is_fuzzy=True))}
    output = params.DataParameter()


class MySum(Sum):
    inputs = {"InFieldNames": params.ListParameter(params.ResultParameter(params.DataParameter(), is_fuzzy=False))}
    output = params.DataParameter()


import numpy  # noqa: E402
from mpilot.commands import Command  # noqa: E402


class GenericOut(Command):
    """Declares the generic parameter as its output kind: not data."""

    inputs = {}
    output = params.Parameter()

    def execute(self, **kwargs):
        return numpy.ma.array([1.0, 2.0])


class SubDataParameter(params.DataParameter):
    """A specialised data kind: still data."""


class SubDataOut(Command):
    inputs = {"InFieldName": params.ResultParameter(params.DataParameter())}
    output = SubDataParameter()

    def execute(self, **kwargs):
        return kwargs["InFieldName"].result.copy()
