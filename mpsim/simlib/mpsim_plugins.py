"""A user plug-in library whose commands subclass built-in EEMS commands.

The metaclass resets `inputs` and `output` for every class, so a subclass declares them again; fuzziness
(`is_fuzzy`) is an ordinary class attribute and is inherited.
"""
from mpilot import params
from mpilot.libraries.eems.basic import Sum
from mpilot.libraries.eems.fuzzy import FuzzyOr


class MyFuzzyOr(FuzzyOr):
    """Fuzzy by inheritance: it does not spell out is_fuzzy itself."""

    inputs = {"InFieldNames": params.ListParameter(params.ResultParameter(params.DataParameter(), is_fuzzy=True))}
    output = params.DataParameter()


class MySum(Sum):
    inputs = {"InFieldNames": params.ListParameter(params.ResultParameter(params.DataParameter(), is_fuzzy=False))}
    output = params.DataParameter()
