"""SimFS - an in-memory file system behind builtins.open / os.path.exists, with fault injection
and an environment actor stepped at file-system call boundaries.

Only paths under the virtual root /sim are simulated; everything else (imports, PLY, netCDF)
is delegated to the real functions.
"""
from __future__ import annotations

import builtins
import errno
import os
import posixpath

from .core import HarnessError

ROOT = "/sim"

ERRNO = {
    "ENOENT": errno.ENOENT, "EACCES": errno.EACCES, "EISDIR": errno.EISDIR, "EMFILE": errno.EMFILE,
    "EIO": errno.EIO, "ENOSPC": errno.ENOSPC, "EROFS": errno.EROFS,
}


def _oserror(name, path):
    code = ERRNO[name]
    cls = {errno.ENOENT: FileNotFoundError, errno.EACCES: PermissionError, errno.EISDIR: IsADirectoryError}.get(
        code, OSError)
    return cls(code, os.strerror(code), path)


def is_sim(path):
    return isinstance(path, str) and (path == ROOT or path.startswith(ROOT + "/"))


class _ReadFile(object):
    def __init__(self, fs, path, data, binary=False):
        self.fs = fs
        self.path = path
        self._data = data        # bytes
        self._text = None
        self._pos = 0
        self.closed = False
        self.binary = binary
        self.name = path
        self.mode = "rb" if binary else "r"

    def _content(self):
        if self.closed:
            raise ValueError("I/O operation on closed file.")
        self.fs._fault("read", self.path)
        if self._text is None:
            if self.binary:
                self._text = self._data
            else:
                text = self._data.decode("utf-8")  # may raise UnicodeDecodeError (undecodable-bytes fault)
                self._text = text.replace("\r\n", "\n").replace("\r", "\n")
        return self._text

    def read(self, n=-1):
        t = self._content()
        if n is None or n < 0:
            out = t[self._pos:]
            self._pos = len(t)
        else:
            out = t[self._pos:self._pos + n]
            self._pos += len(out)
        self.fs.log.emit("fs", op="read", path=self.path, n=len(out))
        return out

    def readline(self):
        t = self._content()
        nl = "\n" if not self.binary else b"\n"
        i = t.find(nl, self._pos)
        end = len(t) if i < 0 else i + 1
        out = t[self._pos:end]
        self._pos = end
        return out

    def readlines(self):
        t = self._content()
        rest = t[self._pos:]
        self._pos = len(t)
        out = rest.splitlines(True) if self.binary else [x for x in _split_keep(rest)]
        self.fs.log.emit("fs", op="read", path=self.path, n=len(rest))
        return out

    def __iter__(self):
        return iter(self.readlines())

    def close(self):
        if not self.closed:
            self.closed = True
            self.fs.log.emit("fs", op="close", path=self.path, mode="r")

    def __enter__(self):
        return self

    def __exit__(self, *a):
        self.close()
        return False

    def readable(self):
        return True

    def writable(self):
        return False


def _split_keep(text):
    start = 0
    while start < len(text):
        i = text.find("\n", start)
        if i < 0:
            yield text[start:]
            return
        yield text[start:i + 1]
        start = i + 1


class _WriteFile(object):
    def __init__(self, fs, path, append_to=b""):
        self.fs = fs
        self.path = path
        self.buf = []
        self.count = 0
        self.closed = False
        self.prefix = append_to
        self.name = path
        self.mode = "w"

    def write(self, s):
        if self.closed:
            raise ValueError("I/O operation on closed file.")
        if not isinstance(s, str):
            raise TypeError("write() argument must be str, not %s" % type(s).__name__)
        f = self.fs._peek_fault("write", self.path)
        if f is not None:
            limit = int(f.get("after", 0))
            if self.count + len(s) > limit:
                keep = max(0, limit - self.count)
                self.buf.append(s[:keep])
                self.count += keep
                self.fs._consume(f)
                self._commit()       # the prefix stays on the disk: a torn output file
                self.fs.log.emit("fs", op="write", path=self.path, n=keep, outcome=f["err"])
                self.fs.probe("fault landed mid-write")
                raise _oserror(f["err"], self.path)
        self.buf.append(s)
        self.count += len(s)
        self.fs.log.emit("fs", op="write", path=self.path, n=len(s))
        return len(s)

    def writelines(self, lines):
        for x in lines:
            self.write(x)

    def flush(self):
        pass

    def _commit(self):
        self.fs.files[self.path] = self.prefix + "".join(self.buf).encode("utf-8")
        self.fs.mutations += 1
        self.fs.touch(self.path)

    def close(self):
        if self.closed:
            return
        self.closed = True
        self._commit()
        f = self.fs._peek_fault("close", self.path)
        if f is not None:
            self.fs._consume(f)
            self.fs.log.emit("fs", op="close", path=self.path, mode="w", outcome=f["err"])
            raise _oserror(f["err"], self.path)
        self.fs.log.emit("fs", op="close", path=self.path, mode="w")

    def __enter__(self):
        return self

    def __exit__(self, *a):
        self.close()
        return False

    def readable(self):
        return False

    def writable(self):
        return True


class SimFS(object):
    """files: path -> bytes.  faults / actor: lists of dicts (see DESIGN.md 3.3).

    fault = {"op": "open"|"read"|"write"|"close"|"exists", "path": <path>, "nth": k, "err": "ENOSPC", "after": n,
             "mode": "r"|"w"|None}
    actor = {"at": {"op": ..., "path": ..., "nth": k}, "do": "delete"|"replace"|"create"|"unreadable",
             "path": <path>, "content": <text>}
    """

    def __init__(self, log, res=None, files=None, dirs=None, faults=None, actor=None):
        self.log = log
        self.res = res
        self.files = {}
        for p, c in (files or {}).items():
            self.files[posixpath.normpath(p)] = c.encode("utf-8") if isinstance(c, str) else bytes(c)
        self.dirs = set([ROOT] + [posixpath.normpath(d) for d in (dirs or [])])
        self.unreadable = set()
        self.clock = 1000          # a logical clock for modification times: bumped by every change of a file
        self.mtimes = {}
        self.faults = [dict(f, _left=1) for f in (faults or [])]
        self.actor = [dict(a, _left=1) for a in (actor or [])]
        self.calls = {}        # (op, path, mode) -> number of calls so far
        self.mutations = 0     # number of content changes (writes committed / actor steps)
        self.write_opens = 0
        self._saved = None
        if res is not None:
            for f in self.faults:
                res.configured("fs-%s-%s" % (f["op"], f["err"]))
            for a in self.actor:
                res.configured("actor-%s" % a["do"])

    def probe(self, name):
        if self.res is not None:
            self.res.probe(name)

    # ---- fault plan ---------------------------------------------------------------------------------
    def _tick(self, op, path, mode=None):
        """Count the call, let the environment actor act before it, return the call's ordinal."""
        key = (op, path)
        n = self.calls.get(key, 0)
        self.calls[key] = n + 1
        for a in self.actor:
            at = a["at"]
            if a["_left"] and at["op"] == op and at["path"] == path and int(at.get("nth", 0)) == n:
                a["_left"] = 0
                self._act(a)
        return n

    def _act(self, a):
        p = posixpath.normpath(a["path"])
        do = a["do"]
        if do == "delete":
            self.files.pop(p, None)
        elif do in ("replace", "create"):
            self.files[p] = a.get("content", "").encode("utf-8")
            self.touch(p)
        elif do == "unreadable":
            self.unreadable.add(p)
        else:
            raise HarnessError("unknown actor step %r" % (a,))
        self.mutations += 1
        self.log.emit("actor", do=do, path=p, at=a["at"])
        if self.res is not None:
            self.res.fired("actor-%s" % do)
            self.res.probe("actor step before %s#%d" % (a["at"]["op"], int(a["at"].get("nth", 0))))

    def _peek_fault(self, op, path, n=None, mode=None):
        for f in self.faults:
            if not f["_left"] or f["op"] != op or f["path"] != path:
                continue
            if f.get("mode") and mode and f["mode"] != mode:
                continue
            if op in ("open", "exists") and n is not None and int(f.get("nth", 0)) != n:
                continue
            return f
        return None

    def _consume(self, f):
        f["_left"] = 0
        if self.res is not None:
            self.res.fired("fs-%s-%s" % (f["op"], f["err"]))

    def _fault(self, op, path, n=None, mode=None):
        f = self._peek_fault(op, path, n, mode)
        if f is not None:
            self._consume(f)
            self.log.emit("fs", op=op, path=path, mode=mode, outcome=f["err"])
            raise _oserror(f["err"], path)

    # ---- the seam ---------------------------------------------------------------------------------------
    def isdir(self, p):
        if p in self.dirs:
            return True
        pre = p.rstrip("/") + "/"
        return any(k.startswith(pre) for k in self.files) or any(d.startswith(pre) for d in self.dirs)

    def exists(self, path):
        p = posixpath.normpath(path)
        n = self._tick("exists", p)
        f = self._peek_fault("exists", p, n)
        if f is not None:
            # os.path.exists swallows OSError and answers False
            self._consume(f)
            self.log.emit("fs", op="exists", path=p, outcome="false-by-fault")
            return False
        out = p in self.files or self.isdir(p)
        self.log.emit("fs", op="exists", path=p, outcome=out)
        return out

    def open(self, path, mode="r", *args, **kwargs):
        p = posixpath.normpath(path)
        m = mode.replace("t", "")
        n = self._tick("open", p)
        kind = "w" if m[0] in "wax" else "r"
        self._fault("open", p, n, kind)
        if m in ("r", "rb"):
            if self.isdir(p):
                self.log.emit("fs", op="open", path=p, mode=m, outcome="EISDIR")
                raise _oserror("EISDIR", p)
            if p not in self.files:
                self.log.emit("fs", op="open", path=p, mode=m, outcome="ENOENT")
                raise _oserror("ENOENT", p)
            if p in self.unreadable:
                self.log.emit("fs", op="open", path=p, mode=m, outcome="EACCES")
                raise _oserror("EACCES", p)
            self.log.emit("fs", op="open", path=p, mode=m, outcome="ok")
            return _ReadFile(self, p, self.files[p], binary=(m == "rb"))
        if m in ("w", "a", "x"):
            parent = posixpath.dirname(p)
            if self.isdir(p):
                self.log.emit("fs", op="open", path=p, mode=m, outcome="EISDIR")
                raise _oserror("EISDIR", p)
            if not self.isdir(parent):
                self.log.emit("fs", op="open", path=p, mode=m, outcome="ENOENT")
                raise _oserror("ENOENT", p)
            self.write_opens += 1
            self.log.emit("fs", op="open", path=p, mode=m, outcome="ok")
            old = self.files.get(p, b"") if m == "a" else b""
            if m != "a":
                # truncation is immediately visible, as on a real file system
                self.files[p] = b""
                self.mutations += 1
            return _WriteFile(self, p, append_to=old)
        raise HarnessError("SimFS: unsupported open mode %r for %s" % (mode, path))

    # ---- installation -------------------------------------------------------------------------------------
    def install(self):
        fs = self
        real_open = builtins.open
        real_exists = os.path.exists

        def sim_open(file, mode="r", *args, **kwargs):
            if is_sim(file):
                return fs.open(file, mode, *args, **kwargs)
            return real_open(file, mode, *args, **kwargs)

        def sim_exists(path):
            if is_sim(path):
                return fs.exists(path)
            return real_exists(path)

        self._saved = (real_open, real_exists)
        builtins.open = sim_open
        os.path.exists = sim_exists
        # other doors to the same files: io.open, and the private alias tokenize kept at import time (linecache reads
        # source lines through tokenize.open)
        import io as _io
        import tokenize as _tokenize
        self._saved_more = (_io.open, getattr(_tokenize, "_builtin_open", None))
        real_tok_open = self._saved_more[1]

        def sim_tok_open(file, mode="r", *args, **kwargs):
            if is_sim(file):
                q = posixpath.normpath(file)
                if q not in fs.files:
                    raise _oserror("ENOENT", file)
                fs.log.emit("fs", op="open", path=q, mode="rb", via="tokenize")
                return _io.BytesIO(fs.files[q])
            return real_tok_open(file, mode, *args, **kwargs)

        _io.open = sim_open
        if real_tok_open is not None:
            _tokenize._builtin_open = sim_tok_open
        # directory / file manipulation through os.*: simulated for /sim paths (and recorded as side effects)
        self._saved_os = {}

        def wrap(name, sim_fn):
            real = getattr(os, name)
            self._saved_os[name] = real

            def f(path, *a, **k):
                if is_sim(path) or (a and is_sim(a[0])):
                    return sim_fn(path, *a, **k)
                return real(path, *a, **k)

            setattr(os, name, f)

        def mk(path, *a, **k):
            p = posixpath.normpath(path)
            exist_ok = k.get("exist_ok", False) or (len(a) > 1 and a[1])
            if fs.isdir(p) or p in fs.files:
                if exist_ok and fs.isdir(p):
                    return None
                raise FileExistsError(errno.EEXIST, os.strerror(errno.EEXIST), path)
            fs.dirs.add(p)
            fs.mutations += 1
            fs.log.emit("fs", op="mkdir", path=p)
            return None

        def mkdirs(path, *a, **k):
            p = posixpath.normpath(path)
            if fs.isdir(p):
                if k.get("exist_ok", False) or (len(a) > 1 and a[1]):
                    return None
                raise FileExistsError(errno.EEXIST, os.strerror(errno.EEXIST), path)
            parts = p.split("/")
            for i in range(2, len(parts) + 1):
                q = "/".join(parts[:i])
                if q and not fs.isdir(q):
                    fs.dirs.add(q)
            fs.mutations += 1
            fs.log.emit("fs", op="makedirs", path=p)
            return None

        def rm(path, *a, **k):
            p = posixpath.normpath(path)
            if p not in fs.files:
                raise _oserror("ENOENT", path)
            del fs.files[p]
            fs.mutations += 1
            fs.log.emit("fs", op="remove", path=p)

        def mv(src, dst, *a, **k):
            s_, d_ = posixpath.normpath(src), posixpath.normpath(dst)
            if s_ not in fs.files:
                raise _oserror("ENOENT", src)
            fs.files[d_] = fs.files.pop(s_)
            fs.mutations += 1
            fs.log.emit("fs", op="rename", path=s_, to=d_)

        def rmdir(path, *a, **k):
            p = posixpath.normpath(path)
            fs.dirs.discard(p)
            fs.mutations += 1
            fs.log.emit("fs", op="rmdir", path=p)

        for name, fn in (("mkdir", mk), ("makedirs", mkdirs), ("remove", rm), ("unlink", rm), ("rename", mv),
                         ("replace", mv), ("rmdir", rmdir)):
            wrap(name, fn)
        def _need(p):
            q = posixpath.normpath(p)
            if q not in fs.files and not fs.isdir(q):
                raise _oserror("ENOENT", p)
            return q

        def sim_stat(path, *a, **k):
            q = _need(path)
            size = len(fs.files.get(q, b""))
            mode = 0o040755 if q not in fs.files else 0o100644
            t = fs.mtime(q)
            return os.stat_result((mode, 1, 1, 1, 0, 0, size, t, t, t))

        wrap("stat", sim_stat)
        self._saved_path = {}
        for name, fn in (("isdir", lambda p: fs.isdir(posixpath.normpath(p))),
                         ("isfile", lambda p: posixpath.normpath(p) in fs.files),
                         ("getmtime", lambda p: fs.mtime(_need(p))),
                         ("getsize", lambda p: len(fs.files.get(_need(p), b"")))):
            real = getattr(os.path, name)
            self._saved_path[name] = real

            def g(path, _fn=fn, _real=real):
                return _fn(path) if is_sim(path) else _real(path)

            setattr(os.path, name, g)
        return self

    def uninstall(self):
        if self._saved:
            builtins.open, os.path.exists = self._saved
            self._saved = None
            import io as _io
            import tokenize as _tokenize
            more = getattr(self, "_saved_more", None)
            if more:
                _io.open = more[0]
                if more[1] is not None:
                    _tokenize._builtin_open = more[1]
                self._saved_more = None
            for name, real in getattr(self, "_saved_os", {}).items():
                setattr(os, name, real)
            for name, real in getattr(self, "_saved_path", {}).items():
                setattr(os.path, name, real)
            self._saved_os, self._saved_path = {}, {}

    def __enter__(self):
        return self.install()

    def __exit__(self, *a):
        self.uninstall()
        return False

    def touch(self, path):
        self.clock += 1
        self.mtimes[posixpath.normpath(path)] = self.clock

    def mtime(self, path):
        return float(self.mtimes.get(posixpath.normpath(path), 1000))

    def text(self, path):
        data = self.files.get(posixpath.normpath(path))
        return None if data is None else data.decode("utf-8", "replace")

    def snapshot(self):
        return {p: bytes(c) for p, c in self.files.items()}
