"""Simulator core: seed derivation, the global event sequence, digests, results.

There is no simulated clock: mpilot has no timers.  "Time" is the event
sequence number.  Every seam crossing appends one event; ordering oracles use
the sequence number only.
"""
from __future__ import annotations

import hashlib
import json
import random
import re

_ADDR = re.compile(r"0x[0-9a-fA-F]{6,}")


class HarnessError(BaseException):
    """Something is wrong with the simulator itself (never reported as a violation).

    Derives from BaseException so that ``Command.run``'s ``except Exception`` cannot swallow
    and re-wrap it as an UnexpectedError.
    """


class SimAbort(BaseException):
    """Raised by an oracle to stop a run early once its verdict is settled."""


class StepCapExceeded(HarnessError):
    pass


def derive_rng(master, prop, index, stream="gen"):
    # String seeding goes through SHA-512 inside random.seed: independent of PYTHONHASHSEED.
    return random.Random("%d:%s:%s:%d" % (int(master), prop, stream, int(index)))


def canon(obj):
    """Canonical JSON text of a JSON-like object (sets are sorted, tuples become lists)."""
    return json.dumps(_canon(obj), sort_keys=True, separators=(",", ":"), ensure_ascii=True)


def _canon(obj):
    if isinstance(obj, dict):
        return {str(k): _canon(v) for k, v in obj.items()}
    if isinstance(obj, (list, tuple)):
        return [_canon(v) for v in obj]
    if isinstance(obj, (set, frozenset)):
        return sorted((_canon(v) for v in obj), key=lambda x: json.dumps(x, sort_keys=True))
    if isinstance(obj, float):
        if obj != obj:
            return "nan"
        if obj in (float("inf"), float("-inf")):
            return "inf" if obj > 0 else "-inf"
        return repr(obj)
    if isinstance(obj, str):
        # no id()/address may reach the log: reprs of objects embedded in strings are canonicalised
        return _ADDR.sub("0x", obj) if "0x" in obj else obj
    if isinstance(obj, (int, bool)) or obj is None:
        return obj
    if isinstance(obj, bytes):
        return "b:" + obj.hex()
    return "<%s>" % type(obj).__name__


def sha(text):
    if isinstance(text, str):
        text = text.encode("utf-8", "backslashreplace")
    return hashlib.sha256(text).hexdigest()


def h64(obj):
    """Stable 64-bit hash of a canonicalisable object (for distinct-state counting)."""
    return int(sha(canon(obj))[:16], 16)


class EventLog(object):
    """One global, totally ordered event sequence per simulated run."""

    def __init__(self, cap=100000):
        self.events = []
        self.cap = cap
        self._tokens = {}
        # Byte counts of writes are left out of the log where a run may legitimately print values that are not a function
        # of the scenario (mpilot's curve commands leave cells holding NaN unassigned in a numpy.empty buffer: whatever
        # was in that memory is printed).  The operations themselves stay in the log.
        self.blind_sizes = False
        # When the code under test may read memory it never initialised (same cause), what happens after the scenario was
        # set up is not a function of the scenario: the digest then covers the events up to this position only.
        self.digest_cut = None

    def emit(self, kind_, **payload):
        if len(self.events) >= self.cap:
            raise StepCapExceeded("event cap %d exceeded" % self.cap)
        if self.blind_sizes and "n" in payload and kind_ in ("fs", "stdout", "stderr"):
            payload.pop("n")
        self.events.append((kind_, payload))
        return len(self.events) - 1

    @property
    def seq(self):
        return len(self.events)

    def token(self, obj):
        """Number objects by first appearance so that no id() reaches the log."""
        key = id(obj)
        ent = self._tokens.get(key)
        if ent is None or ent[1] is not obj:
            ent = (len(self._tokens), obj)  # keep obj alive so id() is not reused
            self._tokens[key] = ent
        return ent[0]

    def count(self, kind, **match):
        n = 0
        for k, p in self.events:
            if k == kind and all(p.get(a) == b for a, b in match.items()):
                n += 1
        return n

    def digest(self):
        hsh = hashlib.sha256()
        for kind, payload in (self.events if self.digest_cut is None else self.events[:self.digest_cut]):
            hsh.update(kind.encode())
            hsh.update(b"|")
            hsh.update(canon(payload).encode())
            hsh.update(b"\n")
        return hsh.hexdigest()

    def dump(self, limit=400):
        out = []
        for i, (kind, payload) in enumerate(self.events[:limit]):
            out.append([i, kind, _canon(payload)])
        if len(self.events) > limit:
            out.append([len(self.events), "...truncated", {}])
        return out


class Violation(object):
    __slots__ = ("inv", "sig", "detail")

    def __init__(self, inv, sig, detail):
        self.inv = inv      # invariant id, e.g. "C01.I1"
        self.sig = sig      # narrow, stable signature used for known-finding matching and shrinking
        self.detail = detail

    def as_dict(self):
        return {"inv": self.inv, "sig": self.sig, "detail": self.detail}


class RunResult(object):
    """What executing one scenario produced."""

    def __init__(self):
        self.violations = []      # list[Violation]
        self.log = None           # EventLog
        self.probes = {}          # reach probes: name -> hit count
        self.faults = {}          # fault kind -> times FIRED
        self.faults_cfg = {}      # fault kind -> times configured
        self.state_keys = set()   # 64-bit hashes of abstract states reached
        self.schedule_key = None  # canonical description of the interleaving actually executed
        self.case_key = None      # distinct-case key
        self.nontrivial = False
        self.obs = {}             # observations recorded but not judged (name -> count)
        self.steps = 0

    def probe(self, name, n=1):
        self.probes[name] = self.probes.get(name, 0) + n

    def observe(self, name, n=1):
        self.obs[name] = self.obs.get(name, 0) + n

    def fired(self, kind, n=1):
        self.faults[kind] = self.faults.get(kind, 0) + n

    def configured(self, kind, n=1):
        self.faults_cfg[kind] = self.faults_cfg.get(kind, 0) + n

    def violate(self, inv, sig, detail):
        self.violations.append(Violation(inv, sig, detail))

    def summary(self):
        return {
            "violations": [v.as_dict() for v in self.violations],
            "digest": self.log.digest() if self.log is not None else None,
            "n_events": self.log.seq if self.log is not None else 0,
            "digest_cut": self.log.digest_cut if self.log is not None else None,
            "probes": dict(self.probes),
            "faults": dict(self.faults),
            "faults_cfg": dict(self.faults_cfg),
            "state_keys": set(self.state_keys),
            "schedule_key": self.schedule_key,
            "case_key": self.case_key,
            "nontrivial": bool(self.nontrivial),
            "obs": dict(self.obs),
        }


def result_from_payload(events, summary):
    """Rebuild a RunResult from what a forked run sent back."""
    res = RunResult()
    log = EventLog(cap=10 ** 9)
    log.events = events
    log.digest_cut = summary.get("digest_cut")
    res.log = log
    res.violations = [Violation(v["inv"], v["sig"], v["detail"]) for v in summary["violations"]]
    res.probes, res.faults, res.faults_cfg, res.obs = summary["probes"], summary["faults"], summary["faults_cfg"], summary["obs"]
    res.state_keys = summary["state_keys"]
    res.schedule_key = summary["schedule_key"]
    res.case_key = summary["case_key"]
    res.nontrivial = summary["nontrivial"]
    return res


RUN_WALL_CAP = 30.0   # seconds; a simulated run normally takes milliseconds


def run_forked(execute_fn, scenario, wall_cap=None):
    """Execute one scenario in a forked child of this (already initialised) process.

    Every run starts from the same pristine process state, so state that the code under test keeps at
    process level (module-level caches, class attributes, registries) cannot leak from one simulated run
    into the next: a violation found in a batch replays in a fresh interpreter.
    """
    import os
    import pickle
    import traceback

    rfd, wfd = os.pipe()
    pid = os.fork()
    if pid == 0:
        code = 0
        try:
            os.close(rfd)
            try:
                res = execute_fn(scenario)
                payload = ("ok", res.log.events if res.log is not None else [], res.summary())
            except BaseException as exc:  # noqa
                payload = ("harness", "%s: %s\n%s" % (type(exc).__name__, exc, traceback.format_exc()[-3000:]), None)
            data = pickle.dumps(payload)
            os.write(wfd, len(data).to_bytes(8, "big"))
            off = 0
            while off < len(data):
                off += os.write(wfd, data[off:off + 65536])
        except BaseException:
            code = 3
        finally:
            os._exit(code)
    os.close(wfd)
    chunks = []
    import select
    import signal
    global RUN_WALL_CAP
    cap = wall_cap or RUN_WALL_CAP
    ready, _, _ = select.select([rfd], [], [], cap)
    if not ready:
        RUN_WALL_CAP = min(RUN_WALL_CAP, 4.0)   # once the code under test has hung, do not wait as long again
        # bounded progress: the run neither finished nor failed within the cap (an endless loop in the code under
        # test).  The child is killed; the verdict is a violation with a synthetic, deterministic log.
        try:
            os.kill(pid, signal.SIGKILL)
        except OSError:
            pass
        os.waitpid(pid, 0)
        os.close(rfd)
        prop = scenario.get("prop", "?") if isinstance(scenario, dict) else "?"
        res = RunResult()
        res.log = EventLog()
        res.log.emit("hang")
        res.violate(prop + ".hang", prop + ".hang no-progress",
                    "the simulated run did not finish within %.0f s of wall time (normal: milliseconds)" % cap)
        res.nontrivial = True
        return res
    with os.fdopen(rfd, "rb") as f:
        head = f.read(8)
        if len(head) == 8:
            n = int.from_bytes(head, "big")
            while n > 0:
                b = f.read(n)
                if not b:
                    break
                chunks.append(b)
                n -= len(b)
    os.waitpid(pid, 0)
    if not chunks:
        raise HarnessError("forked run died without a result")
    status, a, b = pickle.loads(b"".join(chunks))
    if status != "ok":
        raise HarnessError("forked run failed: %s" % a)
    return result_from_payload(a, b)
