"""Render an abstract program to command-file text, keeping a ledger of true line numbers.

Abstract program: list of commands
    {"result": "R1" | None, "cmd": "ProbeOp", "args": [[name, value], ...]}
Values are plain JSON: str, int, float, bool, list (nested), dict (tuple / metadata),
or {"$raw": "text"} which is emitted verbatim as one token (used by fault injectors).

The layout is a pure function of (program, layout dict); the layout dict carries an
integer from which the renderer derives its own PRNG, so execution never touches the
run's generator PRNG.  Only the safe subset of DESIGN.md Appendix B is emitted:
unquoted strings are identifiers, every other string is quoted printable ASCII without
quotes/backslashes, floats have a '.' and no exponent, and white space, line breaks,
comments and trailing commas appear only *between* tokens.
"""
from __future__ import annotations

import random
import re

IDENT = re.compile(r"^[a-zA-Z_][a-zA-Z_0-9]*$")

PLAIN = {
    "seed": 0, "blank": 0.0, "comment": 0.0, "arg_nl": 0.0, "val_nl": 0.0, "list_nl": 0.0,
    "trail_comma": 0.0, "space": 0.0, "quote": 0.0, "eol": "\n", "lead": 0, "final_nl": True,
    "trail_cmt": 0.0, "exotic_cmt": 0.0,
}


def random_layout(rng, wild=True):
    lay = dict(PLAIN)
    lay["seed"] = rng.randrange(1 << 30)
    if not wild:
        return lay
    lay["blank"] = rng.choice([0.0, 0.2, 0.5])
    lay["comment"] = rng.choice([0.0, 0.2, 0.5])
    lay["trail_cmt"] = rng.choice([0.0, 0.1, 0.4])
    lay["arg_nl"] = rng.choice([0.0, 0.0, 0.3, 0.8])
    lay["val_nl"] = rng.choice([0.0, 0.0, 0.2])
    lay["list_nl"] = rng.choice([0.0, 0.0, 0.3, 0.7])
    lay["trail_comma"] = rng.choice([0.0, 0.3])
    lay["space"] = rng.choice([0.0, 0.5, 1.0])
    lay["quote"] = rng.choice([0.0, 0.3, 1.0])
    lay["eol"] = rng.choice(["\n", "\n", "\n", "\r\n"])
    lay["lead"] = rng.choice([0, 0, 1, 3])
    lay["final_nl"] = rng.random() < 0.7
    return lay


def fmt_float(x):
    s = repr(float(x))
    if "e" in s or "E" in s or "inf" in s or "nan" in s:
        raise ValueError("float %r is outside the safe rendering subset" % (x,))
    return s


class Renderer(object):
    def __init__(self, layout=None):
        lay = dict(PLAIN)
        if layout:
            lay.update(layout)
        self.lay = lay
        self.rng = random.Random("layout:%d" % int(lay["seed"]))
        self.eol = lay["eol"]
        self.parts = []
        self.line = 1
        self.at_line_start = True
        self.line_has_token = False

    # ---- low level -------------------------------------------------------------------------
    def _p(self, key):
        v = self.lay.get(key, 0.0)
        return v > 0 and self.rng.random() < v

    EXOTIC = ("\x0c", "\x0b", "\x1c", "\x1d", "\x1e", "\x85", "\u2028", "\u2029")

    def _exotic(self):
        """Characters that str.splitlines() treats as line breaks but the lexer and readlines() do not."""
        if self._p("exotic_cmt"):
            return " page" + self.rng.choice(self.EXOTIC) + "break"
        return ""

    def newline(self):
        if self.line_has_token and self._p("trail_cmt"):
            self.parts.append(" # c%d%s" % (self.rng.randrange(100), self._exotic()))
        self.parts.append(self.eol)
        self.line += 1
        self.at_line_start = True
        self.line_has_token = False

    def comment_line(self):
        self.parts.append("# note %d (x=1, y=[2])%s" % (self.rng.randrange(1000), self._exotic()))
        self.newline()

    def gap(self, nl_key=None):
        """Optional white space / line break between two tokens."""
        if nl_key and self._p(nl_key):
            self.newline()
            while self._p("blank") and self.rng.random() < 0.5:
                self.newline()
            if self._p("comment") and self.rng.random() < 0.5:
                self.comment_line()
            self.parts.append("    ")
        elif self._p("space"):
            self.parts.append(self.rng.choice([" ", "  ", "\t"]))

    def tok(self, text):
        self.parts.append(text)
        self.at_line_start = False
        self.line_has_token = True
        first = self.line
        # a verbatim token may itself span lines (a quoted string with line breaks in it): what follows it is further down
        self.line += text.replace("\r\n", "\n").replace("\r", "\n").count("\n")
        return first

    # ---- values ----------------------------------------------------------------------------
    def string(self, s):
        if IDENT.match(s) and not self._p("quote"):
            return self.tok(s)
        if '"' in s or "\\" in s or "'" in s or any(ord(c) < 32 or ord(c) > 126 for c in s):
            raise ValueError("string %r is outside the safe rendering subset" % (s,))
        q = '"' if self.rng.random() < 0.7 else "'"
        return self.tok(q + s + q)

    def value(self, v, ledger):
        """Emit a value; ledger receives {"line": first line, "items": [...]}."""
        if isinstance(v, dict) and "$raw" in v:
            ledger["line"] = self.tok(v["$raw"])
            ledger["end"] = self.line
            return
        self._value(v, ledger)
        ledger["end"] = self.line

    def _value(self, v, ledger):
        if isinstance(v, bool):
            ledger["line"] = self.tok("True" if v else "False")
        elif isinstance(v, int):
            ledger["line"] = self.tok(str(v))
        elif isinstance(v, float):
            ledger["line"] = self.tok(fmt_float(v))
        elif isinstance(v, str):
            ledger["line"] = self.string(v)
        elif isinstance(v, list):
            ledger["line"] = self.tok("[")
            items = []
            for i, item in enumerate(v):
                self.gap("list_nl")
                sub = {}
                self.value(item, sub)
                items.append(sub)
                self.gap()
                if i < len(v) - 1:
                    self.tok(",")
                elif self._p("trail_comma"):
                    self.tok(",")
            self.gap("list_nl" if v else None)
            self.tok("]")
            ledger["items"] = items
        elif isinstance(v, dict):
            ledger["line"] = self.tok("[")
            keys = {}
            pairs = sorted(v.items())
            for i, (k, val) in enumerate(pairs):
                self.gap("list_nl")
                keys[k] = self.string(k) if not IDENT.match(k) else self.tok(k)
                self.gap()
                self.tok(":")
                self.gap()
                if isinstance(val, str):
                    q = '"'
                    self.tok(q + val + q)
                else:
                    self.value(val, {})
                self.gap()
                if i < len(pairs) - 1:
                    self.tok(",")
            self.gap("list_nl")
            self.tok("]")
            ledger["keys"] = keys
        else:
            raise ValueError("cannot render %r" % (v,))

    # ---- commands --------------------------------------------------------------------------
    def command(self, c):
        led = {"args": {}, "arglist": []}
        # The head `Result = Command(` is always on one line (DESIGN C11 guard).
        if c.get("result") is not None:
            led["line"] = self.tok(c["result"])
            self.parts.append(" " if self._p("space") else "")
            self.tok("=")
            self.parts.append(" " if self._p("space") else "")
            self.tok(c["cmd"])
        else:
            led["line"] = self.tok(c["cmd"])
        self.tok("(")
        args = c["args"]
        for i, (name, v) in enumerate(args):
            self.gap("arg_nl")
            a = {"name": name}
            a["line"] = self.tok(name)
            self.parts.append(" " if self._p("space") else "")
            self.tok("=")
            self.gap("val_nl")
            val = {}
            self.value(v, val)
            a["value"] = val
            a["end"] = self.line
            led["args"][name] = a
            led["arglist"].append(a)
            self.gap()
            if i < len(args) - 1:
                self.tok(",")
            elif self._p("trail_comma"):
                self.tok(",")
        self.gap("arg_nl" if args else None)
        self.tok(")")
        led["end_line"] = self.line
        return led

    def render(self, program):
        ledger = []
        for _ in range(int(self.lay.get("lead", 0))):
            if self.rng.random() < 0.5:
                self.comment_line()
            else:
                self.newline()
        for i, c in enumerate(program):
            led = self.command(c)
            ledger.append(led)
            last = i == len(program) - 1
            if not last or self.lay.get("final_nl", True):
                self.newline()
            if not last:
                while self._p("blank"):
                    self.newline()
                while self._p("comment"):
                    self.comment_line()
                    if self._p("blank"):
                        self.newline()
        text = "".join(self.parts)
        return text, ledger


def render(program, layout=None):
    return Renderer(layout).render(program)
