"""Self-tests of the simulator itself.

    ./check selftest determinism [PROP ...] [--n N]

For every engine: N run indices, each executed (a) in a 16-worker pool under PYTHONHASHSEED=0, (b) in a
single worker of a fresh interpreter under PYTHONHASHSEED=12345 in reverse order (so each run happens
after other runs in the same process), (c) a sample of indices each alone in a fresh interpreter under a
third hash seed.  All event-log digests must agree.
"""
from __future__ import annotations

import argparse
import json
import multiprocessing
import os
import subprocess
import sys
import time
from concurrent.futures import ProcessPoolExecutor

from . import loader


def _digests_pool(driver, prop, tier, master, indices, jobs, scratch):
    ctx = multiprocessing.get_context("fork")
    out = {}
    with ProcessPoolExecutor(max_workers=jobs, mp_context=ctx, initializer=driver._worker_init,
                             initargs=(scratch, prop)) as pool:
        chunk = max(1, len(indices) // (jobs * 4))
        futs = [pool.submit(driver.digests_task, prop, tier, master, indices[i:i + chunk])
                for i in range(0, len(indices), chunk)]
        for f in futs:
            out.update(f.result())
    return out


def _digests_fresh(driver_path, prop, tier, master, start, count, scratch, hashseed):
    env = dict(os.environ)
    env["PYTHONHASHSEED"] = str(hashseed)
    env["MPSIM_CHILD"] = "1"
    p = subprocess.run([sys.executable, "-B", driver_path, "--digests", prop, "--tier", tier, "--seed", str(master),
                        "--start", str(start), "--count", str(count), "--scratch", scratch],
                       env=env, stdout=subprocess.PIPE, stderr=subprocess.PIPE, timeout=3600)
    if p.returncode != 0:
        raise RuntimeError(p.stderr.decode()[-2000:])
    return {int(k): v for k, v in json.loads(p.stdout.decode()).items()}


def main(argv):
    from . import driver
    ap = argparse.ArgumentParser(prog="check selftest")
    ap.add_argument("what", choices=["determinism"])
    ap.add_argument("props", nargs="*")
    ap.add_argument("--n", type=int, default=2000)
    ap.add_argument("--alone", type=int, default=12)
    ap.add_argument("--seed", type=int, default=int(os.environ.get("VERIF_SEED", "0") or 0))
    args = ap.parse_args(argv)
    props = args.props or sorted(driver.ENGINE_OF)
    scratch = loader.make_scratch()
    bad = 0
    report = {}
    try:
        for prop in props:
            t0 = time.time()
            n = args.n if prop not in ("C18", "C19") else min(args.n, 600)
            indices = list(range(n))
            a = _digests_pool(driver, prop, "quick", args.seed, indices, min(16, os.cpu_count() or 1), scratch)
            b = _digests_fresh(os.path.abspath(driver.__file__), prop, "quick", args.seed, 0, n, scratch, 12345)
            alone = {}
            step = max(1, n // max(1, args.alone))
            for i in range(0, n, step):
                alone.update(_digests_fresh(os.path.abspath(driver.__file__), prop, "quick", args.seed, i, 1, scratch, 777))
            mism = [i for i in indices if a.get(i) != b.get(i)] + [i for i in alone if alone[i] != a.get(i)]
            report[prop] = {"indices": n, "alone": len(alone), "mismatches": mism[:10], "wall_s": round(time.time() - t0, 1)}
            print("determinism %s: %d runs x (16-worker pool, hashseed 0 | 1 worker fresh interpreter, hashseed 12345, "
                  "reverse order) + %d runs alone in fresh interpreters (hashseed 777): %s  [%.1fs]"
                  % (prop, n, len(alone), "OK" if not mism else "MISMATCH at %r" % mism[:10], time.time() - t0))
            sys.stdout.flush()
            bad += bool(mism)
    finally:
        loader.remove_scratch(scratch)
    out = os.path.join(loader.VERIF, "selftest", "determinism.json")
    os.makedirs(os.path.dirname(out), exist_ok=True)
    with open(out, "w") as f:
        json.dump({"seed": args.seed, "report": report}, f, indent=1)
    return 2 if bad else 0
