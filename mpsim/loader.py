"""Rebuild the code under test from the current working tree.

The check never imports mpilot from /repo directly: it copies $MPSIM_REPO/mpilot
(default /repo/mpilot) into a private scratch directory and puts that first on
sys.path.  PLY may then rewrite parsetab.py there without dirtying /repo.
"""
from __future__ import annotations

import os
import shutil
import sys
import tempfile

HERE = os.path.dirname(os.path.abspath(__file__))
VERIF = os.path.dirname(HERE)


def repo_root():
    return os.environ.get("MPSIM_REPO", "/repo")


def make_scratch():
    """Create the scratch directory and copy the package (and the sim libraries) into it."""
    scratch = tempfile.mkdtemp(prefix="mpsim-")
    src = os.path.join(repo_root(), "mpilot")
    if not os.path.isdir(src):
        raise RuntimeError("no mpilot package under %s" % repo_root())
    shutil.copytree(src, os.path.join(scratch, "mpilot"),
                    ignore=shutil.ignore_patterns("__pycache__", "*.pyc", "parser.out"))
    # test data used by the netcdf engine (read-only template)
    data = os.path.join(repo_root(), "tests", "eems", "data")
    if os.path.isdir(data):
        shutil.copytree(data, os.path.join(scratch, "repo_test_data"))
    simlib = os.path.join(HERE, "simlib")
    for name in sorted(os.listdir(simlib)):
        if name.endswith(".py"):
            shutil.copy(os.path.join(simlib, name), os.path.join(scratch, name))
    os.makedirs(os.path.join(scratch, "work"))
    # If the working tree's grammar differs from its cached LALR tables (parsetab.py), let PLY regenerate them here,
    # once, in the scratch copy - not concurrently in every worker, and never in /repo.
    try:
        import subprocess
        env = dict(os.environ, PYTHONDONTWRITEBYTECODE="1")
        subprocess.run([sys.executable, "-B", "-c",
                        "import sys; sys.path.insert(0, %r); import mpilot.parser.parser as p; p.Parser()" % scratch],
                       cwd=scratch, env=env, stdout=subprocess.DEVNULL, stderr=subprocess.DEVNULL, timeout=120)
    except Exception:  # noqa
        pass
    return scratch


def remove_scratch(scratch):
    if scratch and os.path.isdir(scratch) and os.path.basename(scratch).startswith("mpsim-"):
        shutil.rmtree(scratch, ignore_errors=True)


def activate(scratch, import_mpilot=True):
    """Make the scratch copy the importable mpilot of this process."""
    sys.dont_write_bytecode = True
    os.environ.setdefault("OPENBLAS_NUM_THREADS", "1")
    os.environ.setdefault("OMP_NUM_THREADS", "1")
    os.environ.setdefault("MKL_NUM_THREADS", "1")
    if sys.path[0] != scratch:
        if scratch in sys.path:
            sys.path.remove(scratch)
        sys.path.insert(0, scratch)
    if VERIF not in sys.path:
        sys.path.append(VERIF)
    if import_mpilot:
        if "mpilot" in sys.modules:
            mod = sys.modules["mpilot"]
        else:
            import mpilot as mod  # noqa
        path = os.path.abspath(mod.__file__)
        if not path.startswith(os.path.abspath(scratch) + os.sep):
            raise RuntimeError("mpilot imported from %s, not from scratch %s" % (path, scratch))
    return scratch
