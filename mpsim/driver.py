"""Driver: seeded batches over a fork pool, determinism slice, minimisation, replay, evidence.

Exit status: 0 = property held on everything explored (known findings are printed),
1 = violation (line ``VIOLATION property=<id> replay=<path>``), 2 = harness problem (nothing claimed).
"""
from __future__ import annotations

import argparse
import atexit
import faulthandler
import importlib
import json
import multiprocessing
import os
import subprocess
import sys
import time
import traceback
from concurrent.futures import ProcessPoolExecutor, as_completed

HERE = os.path.dirname(os.path.abspath(__file__))
VERIF = os.path.dirname(HERE)
if VERIF not in sys.path:
    sys.path.insert(0, VERIF)

from mpsim import loader  # noqa: E402
from mpsim.core import HarnessError, SimAbort, canon, derive_rng, run_forked, sha  # noqa: E402

ENGINE_OF = {
    "C01": "evalsim", "C14": "evalsim",
    "C02": "modelsim", "C09": "immutsim", "C12": "modelsim", "C13": "modelsim",
    "C11": "histsim_parse", "C19": "histsim_registry", "C20": "histsim_params",
    "C17": "iosim_csv", "C18": "iosim_netcdf",
}
LEVEL_OF = {
    "C01": "exploration", "C02": "exploration", "C09": "exploration", "C11": "exploration",
    "C12": "fault_enumeration", "C13": "fault_enumeration", "C14": "exploration", "C17": "exploration",
    "C18": "exploration", "C19": "exploration", "C20": "exploration",
}
DET_SLICE = 40
WALL_CAP = {"quick": 420.0, "thorough": 5400.0}
MAX_SIGS_MINIMISED = 8
MAX_SIGS_REPORTED = 12
SHRINK_EXEC_BUDGET = 2000
SHRINK_WALL = 90.0

_SCRATCH = None
_ENGINE = None


def engine_for(prop):
    return importlib.import_module("mpsim.engines." + ENGINE_OF[prop])


# ------------------------------------------------------------------------------------------------
# worker side
# ------------------------------------------------------------------------------------------------
def _worker_init(scratch, prop):
    global _SCRATCH, _ENGINE
    faulthandler.enable()
    _SCRATCH = scratch
    os.environ["MPSIM_SCRATCH"] = scratch
    eng = engine_for(prop)
    loader.activate(scratch, import_mpilot=getattr(eng, "NEEDS_MPILOT", True))
    _ENGINE = eng
    if hasattr(eng, "worker_init"):
        eng.worker_init(scratch)
    if not getattr(eng, "ISOLATES", False) and not os.environ.get("MPSIM_NOFORK"):
        # Every simulated run is a forked child of this process: warm up imports, PLY tables and regex caches here, once,
        # with fixed scenarios (identical in every worker and in a replay process), so that children do not pay for it.
        import signal

        class _WarmupTimeout(BaseException):
            pass

        def _alarm(signum, frame):
            raise _WarmupTimeout()

        for i in range(3):
            old_handler = None
            try:
                old_handler = signal.signal(signal.SIGALRM, _alarm)
                signal.setitimer(signal.ITIMER_REAL, 5.0)      # changed code may loop forever: never hang the worker here
                sc = eng.generate(prop, derive_rng(0, prop, i, "warmup"), i, "quick")
                eng.execute(json.loads(json.dumps(sc)))
            except BaseException:  # noqa
                pass
            finally:
                try:
                    signal.setitimer(signal.ITIMER_REAL, 0)
                    if old_handler is not None:
                        signal.signal(signal.SIGALRM, old_handler)
                except Exception:  # noqa
                    pass


def execute_isolated(eng, sc):
    """One simulated run = one forked child of the initialised worker (engines that fork themselves excepted)."""
    if getattr(eng, "ISOLATES", False) or os.environ.get("MPSIM_NOFORK"):
        return eng.execute(sc)
    return run_forked(eng.execute, sc)


def run_one(eng, prop, tier, master, index):
    rng = derive_rng(master, prop, index)
    sc = eng.generate(prop, rng, index, tier)
    sc["_seed"] = [int(master), int(index)]
    # the scenario, not the generator, is the replay format: execute exactly what a replay file would hold
    sc = json.loads(json.dumps(sc))
    res = execute_isolated(eng, sc)
    return sc, res


def _exec_summary(eng, sc):
    res = eng.execute(sc)
    return res.summary(), res


def run_chunk(prop, tier, master, indices, want_digests):
    eng = _ENGINE
    agg = {
        "n": 0, "events": 0, "violations": [], "n_violating_runs": 0, "probes": {}, "faults": {}, "faults_cfg": {},
        "obs": {}, "state_keys": set(), "schedule_keys": set(), "case_keys": set(), "digests": {},
        "samples": [], "harness": [], "nontrivial": 0, "sig_counts": {},
    }
    faulthandler.dump_traceback_later(600, exit=True)
    try:
        for index in indices:
            try:
                sc, res = run_one(eng, prop, tier, master, index)
            except (HarnessError, SimAbort, Exception) as exc:  # harness bug: never a violation
                agg["harness"].append({"index": index, "error": "%s: %s" % (type(exc).__name__, exc),
                                       "traceback": traceback.format_exc()[-3000:]})
                if len(agg["harness"]) > 5:
                    break
                continue
            s = res.summary()
            if any(v["sig"].endswith(".hang no-progress") for v in s["violations"]):
                agg["hangs"] = agg.get("hangs", 0) + 1
                if agg["hangs"] >= 3:
                    agg["n"] += 1
                    agg["n_violating_runs"] += 1
                    agg["sig_counts"][s["violations"][0]["sig"]] = agg["sig_counts"].get(s["violations"][0]["sig"], 0) + 1
                    agg["violations"].append({"index": index, "inv": s["violations"][0]["inv"], "sig": s["violations"][0]["sig"],
                                              "detail": s["violations"][0]["detail"], "scenario": sc, "size": len(canon(sc))})
                    agg["aborted_after_hangs"] = True
                    break
            agg["n"] += 1
            agg["events"] += s["n_events"]
            for k in ("probes", "faults", "faults_cfg", "obs"):
                for name, c in s[k].items():
                    agg[k][name] = agg[k].get(name, 0) + c
            agg["state_keys"] |= s["state_keys"]
            if s["schedule_key"] is not None:
                agg["schedule_keys"].add(s["schedule_key"])
            if s["nontrivial"]:
                agg["nontrivial"] += 1
                if s["case_key"] is not None:
                    agg["case_keys"].add(s["case_key"])
            if index in want_digests:
                agg["digests"][index] = s["digest"]
            if len(agg["samples"]) < 1:
                agg["samples"].append({"index": index, "case": eng.sample(sc)})
            if s["violations"]:
                agg["n_violating_runs"] += 1
                seen = set()
                for v in s["violations"]:
                    if v["sig"] in seen:
                        continue
                    seen.add(v["sig"])
                    agg["sig_counts"][v["sig"]] = agg["sig_counts"].get(v["sig"], 0) + 1
                    have = sum(1 for x in agg["violations"] if x["sig"] == v["sig"])
                    if have < 3:
                        agg["violations"].append({"index": index, "inv": v["inv"], "sig": v["sig"],
                                                  "detail": v["detail"], "scenario": sc, "size": len(canon(sc))})
    finally:
        faulthandler.cancel_dump_traceback_later()
    return agg


def shrink_task(prop, scenario, sig, budget, wall):
    """Greedy structure-aware minimisation while the same violation signature persists."""
    eng = _ENGINE
    t0 = time.time()
    execs = 0
    cur = json.loads(json.dumps(scenario))
    cur_size = len(canon(cur))
    improved = True
    steps = 0
    while improved and execs < budget and time.time() - t0 < wall:
        improved = False
        for cand in eng.shrink_candidates(cur):
            if execs >= budget or time.time() - t0 > wall:
                break
            size = len(canon(cand))
            if size >= cur_size:
                continue
            execs += 1
            cand = json.loads(json.dumps(cand))
            try:
                res = execute_isolated(eng, cand)
            except (HarnessError, SimAbort, Exception):
                continue
            if any(v.sig == sig for v in res.violations):
                cur, cur_size = cand, size
                improved = True
                steps += 1
                break
    res = execute_isolated(eng, cur)
    v = next((v for v in res.violations if v.sig == sig), None)
    return {"scenario": cur, "execs": execs, "steps": steps, "digest": res.log.digest(),
            "events": res.log.dump(), "violation": v.as_dict() if v else None}


def digests_task(prop, tier, master, indices):
    eng = _ENGINE
    out = {}
    for index in indices:
        sc, res = run_one(eng, prop, tier, master, index)
        out[index] = res.log.digest()
    return out


# ------------------------------------------------------------------------------------------------
# driver side
# ------------------------------------------------------------------------------------------------
def reexec_with_fixed_hashseed():
    if os.environ.get("PYTHONHASHSEED") is None or os.environ.get("MPSIM_CHILD") is None:
        env = dict(os.environ)
        env.setdefault("PYTHONHASHSEED", "0")
        env["MPSIM_CHILD"] = "1"
        env["PYTHONDONTWRITEBYTECODE"] = "1"
        env.setdefault("OPENBLAS_NUM_THREADS", "1")
        env.setdefault("OMP_NUM_THREADS", "1")
        os.execve(sys.executable, [sys.executable, "-B", os.path.abspath(__file__)] + sys.argv[1:], env)


_KNOWN_RE = None


def load_known():
    """Parse /verif/known_findings.jsonl (text lines, see the header of that file)."""
    import re
    path = os.path.join(VERIF, "known_findings.jsonl")
    known, fixed = {}, {}
    rx = re.compile(r'^(known|fixed): property=(C\d+) (?:([0-9a-f]{7,40}) )?sig="([^"]*)" (.*)$')
    if os.path.exists(path):
        with open(path) as f:
            for line in f:
                line = line.strip()
                if not line or line.startswith("#"):
                    continue
                m = rx.match(line)
                if not m:
                    raise HarnessError("unparseable line in known_findings.jsonl: %r" % line)
                status, prop, commit, sig, what = m.groups()
                ent = {"status": status, "property": prop, "commit": commit, "signature": sig, "what": what}
                (known if status == "known" else fixed)[(prop, sig)] = ent
    return known, fixed


def write_json(path, obj):
    os.makedirs(os.path.dirname(path), exist_ok=True)
    tmp = path + ".tmp%d" % os.getpid()
    with open(tmp, "w") as f:
        json.dump(obj, f, indent=1, sort_keys=False, default=_json_default)
        f.write("\n")
    os.replace(tmp, path)


def _json_default(o):
    if isinstance(o, (set, frozenset)):
        return sorted(o)
    return repr(o)


def cmd_check(args):
    prop = args.prop
    tier = args.tier or os.environ.get("VERIF_TIER") or "quick"
    if tier not in ("quick", "thorough"):
        tier = "quick"
    master = int(args.seed if args.seed is not None else os.environ.get("VERIF_SEED", "0") or 0)
    eng = engine_for(prop)
    runs = args.runs or eng.BUDGET[prop][tier]
    jobs = args.jobs or min(16, os.cpu_count() or 1)
    t0 = time.time()
    print("mpsim check property=%s tier=%s VERIF_SEED=%d runs=%d jobs=%d engine=%s repo=%s" % (
        prop, tier, master, runs, jobs, ENGINE_OF[prop], loader.repo_root()))
    sys.stdout.flush()
    scratch = loader.make_scratch()
    atexit.register(loader.remove_scratch, scratch)
    evidence_path = os.path.join(VERIF, "evidence", prop + ".json")

    det_n = min(DET_SLICE, runs)
    # fresh interpreter, other hash seed, reverse order: digests of the determinism slice
    det_env = dict(os.environ)
    det_env["PYTHONHASHSEED"] = "12345"
    det_env["MPSIM_CHILD"] = "1"
    det_proc = subprocess.Popen(
        [sys.executable, "-B", os.path.abspath(__file__), "--digests", prop, "--tier", tier, "--seed", str(master),
         "--count", str(det_n), "--scratch", scratch],
        env=det_env, stdout=subprocess.PIPE, stderr=subprocess.PIPE)

    chunk = max(20, min(400, runs // (jobs * 6) or 1))
    chunks = [list(range(i, min(runs, i + chunk))) for i in range(0, runs, chunk)]
    want = set(range(det_n))
    total = {
        "n": 0, "events": 0, "violations": [], "n_violating_runs": 0, "probes": {}, "faults": {}, "faults_cfg": {},
        "obs": {}, "state_keys": set(), "schedule_keys": set(), "case_keys": set(), "digests": {},
        "samples": [], "harness": [], "nontrivial": 0, "sig_counts": {},
    }
    truncated = False
    ctx = multiprocessing.get_context("fork")
    pool = ProcessPoolExecutor(max_workers=jobs, mp_context=ctx, initializer=_worker_init, initargs=(scratch, prop))
    try:
        futs = [pool.submit(run_chunk, prop, tier, master, c, want & set(c)) for c in chunks]
        # a second, in-pool execution of the determinism slice (different worker, after other runs)
        det_fut = pool.submit(digests_task, prop, tier, master, list(reversed(range(det_n))))
        for fut in as_completed(futs):
            try:
                agg = fut.result()
            except BaseException as exc:  # dead worker etc.
                total["harness"].append({"index": None, "error": "worker failed: %r" % (exc,), "traceback": ""})
                break
            for k in ("n", "events", "n_violating_runs", "nontrivial"):
                total[k] += agg[k]
            for k in ("probes", "faults", "faults_cfg", "obs", "sig_counts"):
                for name, c in agg[k].items():
                    total[k][name] = total[k].get(name, 0) + c
            for k in ("state_keys", "schedule_keys", "case_keys"):
                total[k] |= agg[k]
            total["digests"].update(agg["digests"])
            if agg.get("aborted_after_hangs"):
                total["aborted_after_hangs"] = True
            total["harness"].extend(agg["harness"])
            total["violations"].extend(agg["violations"])
            if len(total["samples"]) < 3:
                total["samples"].extend(agg["samples"])
            if time.time() - t0 > WALL_CAP[tier]:
                truncated = True
                for f in futs:
                    f.cancel()
                break
        det_pool = {}
        try:
            det_pool = det_fut.result(timeout=300)
        except BaseException as exc:
            total["harness"].append({"index": None, "error": "determinism slice failed: %r" % (exc,), "traceback": ""})

        # ---- determinism verdict -------------------------------------------------------------------
        det_status = "ok"
        try:
            out, err = det_proc.communicate(timeout=300)
            det_fresh = {int(k): v for k, v in json.loads(out.decode() or "{}").items()}
            if det_proc.returncode != 0:
                raise RuntimeError(err.decode()[-2000:])
        except Exception as exc:
            det_fresh = {}
            total["harness"].append({"index": None, "error": "fresh-interpreter determinism run failed: %r" % (exc,),
                                     "traceback": ""})
        mismatches = []
        for i in range(det_n):
            a, b, c = total["digests"].get(i), det_pool.get(i), det_fresh.get(i)
            if a is None and (truncated or total.get("aborted_after_hangs")):
                continue
            if not (a == b == c) or a is None:
                mismatches.append(i)
        if mismatches:
            det_status = "MISMATCH at run indices %r" % mismatches[:10]
            total["harness"].append({"index": mismatches[0], "error": "non-deterministic replay: " + det_status,
                                     "traceback": ""})

        # ---- violations: group, minimise, replay-verify, match known findings ---------------------------
        known, fixed = load_known()
        by_sig = {}
        for v in total["violations"]:
            cur = by_sig.get(v["sig"])
            if cur is None or v["size"] < cur["size"]:
                by_sig[v["sig"]] = v
        reported, known_hits, unverifiable = [], [], []
        # smallest scenarios first; beyond MAX_SIGS_REPORTED unknown signatures the rest is only counted
        ranked = sorted(by_sig.items(), key=lambda kv: (kv[1]["size"], kv[0]))
        n_unknown = 0
        skipped_sigs = []
        for n_done, (sig, v) in enumerate(ranked):
            is_known = (prop, sig) in known
            if not is_known:
                n_unknown += 1
                if n_unknown > MAX_SIGS_REPORTED:
                    skipped_sigs.append(sig)
                    continue
            if is_known:
                known_hits.append((sig, known[(prop, sig)], v))
            if n_unknown > MAX_SIGS_MINIMISED and not is_known:
                mini = None
            else:
                try:
                    mini = pool.submit(shrink_task, prop, v["scenario"], sig,
                                       SHRINK_EXEC_BUDGET if not is_known else 300,
                                       SHRINK_WALL if not is_known else 20.0).result(timeout=SHRINK_WALL * 3)
                except BaseException as exc:
                    mini = None
                    total["harness"].append({"index": v["index"], "error": "shrink failed: %r" % (exc,), "traceback": ""})
            scenario = mini["scenario"] if mini and mini.get("violation") else v["scenario"]
            replay = {
                "property": prop, "engine": ENGINE_OF[prop], "invariant": v["inv"], "signature": sig,
                "detail": (mini["violation"]["detail"] if mini and mini.get("violation") else v["detail"]),
                "seed": master, "run_index": v["index"], "tier": tier, "scenario": scenario,
                "digest": mini["digest"] if mini and mini.get("violation") else None,
                "events": mini["events"] if mini and mini.get("violation") else None,
                "minimised": bool(mini and mini.get("violation")),
                "shrink": {"executions": mini["execs"], "accepted_steps": mini["steps"]} if mini else None,
                "known_finding": is_known,
            }
            name = "%s-%s.json" % (prop, sha(sig + canon(scenario))[:12])
            sub = "known" if is_known else "replays"
            path = os.path.join(VERIF, sub, name)
            write_json(path, replay)
            if is_known:
                continue
            # replay in a fresh interpreter; a non-reproducible alarm is a simulator bug, not a finding
            rp = subprocess.run([sys.executable, "-B", os.path.abspath(__file__), "--replay", path, "--scratch", scratch,
                                 "--quiet"], env=det_env, stdout=subprocess.PIPE, stderr=subprocess.PIPE, timeout=600)
            if rp.returncode == 1:
                reported.append((sig, path, v))
            else:
                unverifiable.append((sig, path, rp.stdout.decode()[-500:] + rp.stderr.decode()[-500:]))
                total["harness"].append({"index": v["index"], "error": "violation %r did not replay" % sig,
                                         "traceback": rp.stdout.decode()[-1500:] + rp.stderr.decode()[-1500:]})
    finally:
        pool.shutdown(wait=False, cancel_futures=True)

    wall = time.time() - t0
    # ---- evidence ----------------------------------------------------------------------------------------
    dead = sorted(k for k in getattr(eng, "EXPECTED_PROBES", {}).get(prop, []) if not total["probes"].get(k))
    coverage = {
        "evaluations": total["n"],
        "distinct_nontrivial": len(total["case_keys"]),
        "rule": eng.RULES[prop],
        "samples": total["samples"][:3],
        "exhaustive": False,
        "runs_per_hour": int(total["n"] / wall * 3600) if wall > 0 else 0,
        "simulated_steps_total": total["events"],
        "simulated_steps_per_run": round(total["events"] / total["n"], 2) if total["n"] else 0,
        "simulated_time": "not applicable: mpilot has no timers or clock reads; simulated time is the event count",
        "fault_kinds_fired": total["faults"],
        "fault_kinds_configured": total["faults_cfg"],
        "distinct_schedules": len(total["schedule_keys"]),
        "distinct_abstract_states": len(total["state_keys"]),
        "state_measure": getattr(eng, "STATE_MEASURE", {}).get(prop, ""),
        "reach_probes": total["probes"],
        "dead_probes": dead,
        "observations_not_judged": total["obs"],
        "components": getattr(eng, "COMPONENTS", {}),
        "determinism_slice": {"runs": det_n, "executions_each": 3,
                              "how": "batch worker; other pool worker in reverse order; fresh interpreter with "
                                     "PYTHONHASHSEED=12345 in reverse order", "status": det_status},
        "violating_runs": total["n_violating_runs"],
        "violation_signatures": total["sig_counts"],
        "known_findings_hit": sorted(s for s, _, _ in known_hits),
        "truncated": truncated,
        "jobs": jobs,
        "repo": loader.repo_root(),
    }
    ev = {
        "property_id": prop, "tier": tier, "seed": master, "level": LEVEL_OF[prop], "coverage": coverage,
        "assumptions": list(getattr(eng, "ASSUMPTIONS", {}).get(prop, [])) + [
            "seeded sampling, not proof: a clean batch is evidence only for the runs explored",
            "the scratch copy of $MPSIM_REPO/mpilot is the code under test; numpy, ply, six, click, netCDF4 are trusted",
        ],
        "wall_s": round(wall, 2),
        "violations": len(reported),
    }
    write_json(evidence_path, ev)

    # ---- report ------------------------------------------------------------------------------------------
    print("runs=%d events=%d distinct_cases=%d distinct_schedules=%d states=%d wall=%.1fs (%.0f runs/h) determinism=%s"
          % (total["n"], total["events"], len(total["case_keys"]), len(total["schedule_keys"]),
             len(total["state_keys"]), wall, coverage["runs_per_hour"], det_status))
    if total["faults"]:
        print("faults fired: %s" % json.dumps(total["faults"], sort_keys=True))
    if dead:
        print("dead probes: %s" % dead)
    for sig, ent, v in known_hits:
        print("KNOWN-FINDING: property=%s %s [%s] (%d runs)" % (prop, ent.get("what", ""), sig,
                                                                total["sig_counts"].get(sig, 0)))
    for sig, path, v in reported:
        print("violation signature: %s (%d runs) - %s" % (sig, total["sig_counts"].get(sig, 0), v["detail"][:300]))
        print("VIOLATION property=%s replay=%s" % (prop, path))
    if skipped_sigs:
        print("%d further violation signatures were found but not minimised: %s" % (len(skipped_sigs), "; ".join(skipped_sigs[:20])))
    if total["harness"] or truncated:
        for h in total["harness"][:5]:
            print("HARNESS-ERROR: %s\n%s" % (h["error"], h.get("traceback", "")))
        if truncated:
            print("HARNESS-ERROR: wall-clock cap hit; evidence marked truncated")
        sys.stdout.flush()
        # violations that replayed exactly in a fresh interpreter stand on their own
        return 1 if reported else 2
    if total["n"] < runs and not reported:
        print("HARNESS-ERROR: only %d of %d runs produced a result" % (total["n"], runs))
        return 2
    sys.stdout.flush()
    return 1 if reported else 0


def cmd_digests(args):
    prop = args.digests
    tier = args.tier or "quick"
    master = int(args.seed or 0)
    _worker_init(args.scratch, prop)
    out = digests_task(prop, tier, master, list(reversed(range(args.start, args.start + args.count))))
    sys.stdout.write(json.dumps(out))
    return 0


def cmd_replay(args):
    with open(args.replay) as f:
        rep = json.load(f)
    prop = rep["property"]
    scratch = args.scratch
    own = False
    if not scratch:
        scratch = loader.make_scratch()
        own = True
        atexit.register(loader.remove_scratch, scratch)
    _worker_init(scratch, prop)
    eng = _ENGINE
    res = execute_isolated(eng, rep["scenario"])
    sigs = [v.sig for v in res.violations]
    digest = res.log.digest()
    same_sig = rep["signature"] in sigs
    same_digest = rep.get("digest") in (None, digest)
    if not args.quiet:
        print("replay %s: property=%s signature=%r" % (args.replay, prop, rep["signature"]))
        for i, k, p in res.log.dump(200):
            print("  %4d %-12s %s" % (i, k, json.dumps(p, sort_keys=True)))
        for v in res.violations:
            print("  violation %s: %s" % (v.sig, v.detail))
        print("digest %s (%s)" % (digest, "same as recorded" if same_digest else "DIFFERS from recorded %s" % rep.get("digest")))
    if same_sig and same_digest:
        print("VIOLATION property=%s replay=%s" % (prop, args.replay))
        return 1
    if same_sig:
        print("HARNESS-ERROR: violation reproduces but the event digest differs")
        return 2
    print("NOT REPRODUCED: %s no longer shows %r on this tree" % (args.replay, rep["signature"]))
    return 0


def main(argv=None):
    ap = argparse.ArgumentParser(prog="check")
    ap.add_argument("prop", nargs="?")
    ap.add_argument("--tier")
    ap.add_argument("--seed")
    ap.add_argument("--runs", type=int)
    ap.add_argument("--jobs", type=int)
    ap.add_argument("--replay")
    ap.add_argument("--digests")
    ap.add_argument("--count", type=int, default=DET_SLICE)
    ap.add_argument("--start", type=int, default=0)
    ap.add_argument("--scratch")
    ap.add_argument("--quiet", action="store_true")
    if (argv if argv is not None else sys.argv[1:])[:1] == ["selftest"]:
        reexec_with_fixed_hashseed()
        from mpsim import selftest
        return selftest.main((argv if argv is not None else sys.argv[1:])[1:])
    args = ap.parse_args(argv)
    reexec_with_fixed_hashseed()
    if args.digests:
        return cmd_digests(args)
    if args.replay:
        return cmd_replay(args)
    if args.prop == "selftest":
        from mpsim import selftest
        return selftest.main(sys.argv[2:])
    if not args.prop or args.prop not in ENGINE_OF:
        ap.error("unknown property; claimed: %s" % ", ".join(sorted(ENGINE_OF)))
    return cmd_check(args)


if __name__ == "__main__":
    try:
        rc = main()
    except SystemExit:
        raise
    except BaseException:
        traceback.print_exc()
        print("HARNESS-ERROR: driver crashed")
        rc = 2
    sys.stdout.flush()
    sys.stderr.flush()
    os._exit(rc) if False else sys.exit(rc)
