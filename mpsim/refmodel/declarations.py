"""Command declaration table of the built-in EEMS libraries, written from docs/user/*.rst and the
property statements (NOT from the code).  Used as the acceptance predicate (C12), as the generator's
type discipline (C02, C09, C13) and by the fault matrix.

Parameter kinds: result, results (list of results), number, numbers (list of numbers), string, bool,
path_in (must exist), path_out, datatype, tuple.
`fz` on a result parameter: True = needs fuzzy data, False = needs non-fuzzy data, None = either.
`out`: "data" | "bool" | None ;  `fuzzy`: whether the output is fuzzy data.
"""
from __future__ import annotations


def P(kind, required=True, fz=None, data=True):
    return {"kind": kind, "required": required, "fz": fz, "data": data}


def _nf(kind="result", required=True):
    return P(kind, required, fz=False)


def _fz(kind="result", required=True):
    return P(kind, required, fz=True)


NUM = lambda req=True: P("number", req)      # noqa: E731
NUMS = lambda req=True: P("numbers", req)    # noqa: E731

BASIC = {
    "Copy": {"params": {"InFieldName": P("result")}, "out": "data", "fuzzy": False},
    "AMinusB": {"params": {"A": _nf(), "B": _nf()}, "out": "data", "fuzzy": False},
    "Sum": {"params": {"InFieldNames": _nf("results")}, "out": "data", "fuzzy": False},
    "WeightedSum": {"params": {"InFieldNames": _nf("results"), "Weights": NUMS()}, "out": "data", "fuzzy": False},
    "Multiply": {"params": {"InFieldNames": _nf("results")}, "out": "data", "fuzzy": False},
    "ADividedByB": {"params": {"A": _nf(), "B": _nf()}, "out": "data", "fuzzy": False},
    "Minimum": {"params": {"InFieldNames": _nf("results")}, "out": "data", "fuzzy": False},
    "Maximum": {"params": {"InFieldNames": _nf("results")}, "out": "data", "fuzzy": False},
    "Mean": {"params": {"InFieldNames": _nf("results")}, "out": "data", "fuzzy": False},
    "WeightedMean": {"params": {"InFieldNames": _nf("results"), "Weights": NUMS()}, "out": "data", "fuzzy": False},
    "Normalize": {"params": {"InFieldName": _nf(), "StartVal": NUM(False), "EndVal": NUM(False)},
                  "out": "data", "fuzzy": False},
    "NormalizeZScore": {"params": {"InFieldName": _nf(), "TrueThresholdZScore": NUM(False),
                                   "FalseThresholdZScore": NUM(False), "StartVal": NUM(False), "EndVal": NUM(False)},
                        "out": "data", "fuzzy": False},
    "NormalizeCat": {"params": {"InFieldName": _nf(), "RawValues": NUMS(), "NormalValues": NUMS(),
                                "DefaultNormalValue": NUM()}, "out": "data", "fuzzy": False},
    "NormalizeCurve": {"params": {"InFieldName": _nf(), "RawValues": NUMS(), "NormalValues": NUMS()},
                       "out": "data", "fuzzy": False},
    "NormalizeMeanToMid": {"params": {"InFieldName": _nf(), "IgnoreZeros": P("bool"), "NormalValues": NUMS()},
                           "out": "data", "fuzzy": False},
    "NormalizeCurveZScore": {"params": {"InFieldName": _nf(), "ZScoreValues": NUMS(), "NormalValues": NUMS()},
                             "out": "data", "fuzzy": False},
    "PrintVars": {"params": {"InFieldNames": P("results", data=False), "OutFileName": P("path_out", False)},
                  "out": "bool", "fuzzy": False},
}

FUZZY = {
    "CvtToFuzzy": {"params": {"InFieldName": _nf(), "TrueThreshold": NUM(False), "FalseThreshold": NUM(False),
                              "Direction": P("string", False)}, "out": "data", "fuzzy": True},
    "CvtToFuzzyZScore": {"params": {"InFieldName": _nf(), "TrueThresholdZScore": NUM(False),
                                    "FalseThresholdZScore": NUM(False)}, "out": "data", "fuzzy": True},
    "CvtToFuzzyCat": {"params": {"InFieldName": _nf(), "RawValues": NUMS(), "FuzzyValues": NUMS(),
                                 "DefaultFuzzyValue": NUM()}, "out": "data", "fuzzy": True},
    "CvtToFuzzyCurve": {"params": {"InFieldName": _nf(), "RawValues": NUMS(), "FuzzyValues": NUMS()},
                        "out": "data", "fuzzy": True},
    "CvtToFuzzyMeanToMid": {"params": {"InFieldName": _nf(), "IgnoreZeros": P("bool"), "FuzzyValues": NUMS()},
                            "out": "data", "fuzzy": True},
    "CvtToFuzzyCurveZScore": {"params": {"InFieldName": _nf(), "ZScoreValues": NUMS(), "FuzzyValues": NUMS()},
                              "out": "data", "fuzzy": True},
    "CvtToBinary": {"params": {"InFieldName": _nf(), "Threshold": NUM(), "Direction": P("string")},
                    "out": "data", "fuzzy": True},
    "FuzzyUnion": {"params": {"InFieldNames": _fz("results")}, "out": "data", "fuzzy": True},
    "FuzzyWeightedUnion": {"params": {"InFieldNames": _fz("results"), "Weights": NUMS()}, "out": "data", "fuzzy": True},
    "FuzzySelectedUnion": {"params": {"InFieldNames": _fz("results"), "TruestOrFalsest": P("string"),
                                      "NumberToConsider": NUM()}, "out": "data", "fuzzy": True},
    "FuzzyOr": {"params": {"InFieldNames": _fz("results")}, "out": "data", "fuzzy": True},
    "FuzzyAnd": {"params": {"InFieldNames": _fz("results")}, "out": "data", "fuzzy": True},
    "FuzzyXOr": {"params": {"InFieldNames": _fz("results")}, "out": "data", "fuzzy": True},
    "FuzzyNot": {"params": {"InFieldName": _fz()}, "out": "data", "fuzzy": True},
    "CvtFromFuzzy": {"params": {"InFieldName": _fz(), "TrueThreshold": NUM(), "FalseThreshold": NUM()},
                     "out": "data", "fuzzy": False},
}

CSV = {
    "EEMSRead": {"params": {"InFileName": P("path_in"), "InFieldName": P("string"), "MissingVal": NUM(False),
                            "DataType": P("datatype", False)}, "out": "data", "fuzzy": False},
    # The CSV writer's result is not data: the documentation gives it no value a data input could use.
    "EEMSWrite": {"params": {"OutFileName": P("path_out"), "OutFieldNames": P("results")}, "out": "bool",
                  "fuzzy": False},
}

NETCDF = {
    "EEMSRead": {"params": {"InFileName": P("path_in"), "InFieldName": P("string"), "MissingValue": NUM(False),
                            "DataType": P("datatype", False)}, "out": "data", "fuzzy": False},
    "EEMSWrite": {"params": {"OutFileName": P("path_out"), "OutFieldNames": P("results"),
                             "DimensionFileName": P("path_in"), "DimensionFieldName": P("string")},
                  "out": "bool", "fuzzy": False},
}


def table(config="csv"):
    t = {}
    t.update(BASIC)
    t.update(FUZZY)
    t.update(CSV if config == "csv" else NETCDF)
    for d in t.values():
        d["params"].setdefault("Metadata", P("tuple", False))
    return t


# EEMS 2.0 names that map to existing MPilot commands (DESIGN C02 dialect knob; C16 itself is not claimed)
V2_NAMES = {
    "EEMSRead": "READ", "CvtToFuzzy": "CVTTOFUZZY", "CvtToFuzzyCurve": "CVTTOFUZZYCURVE",
    "CvtToFuzzyCat": "CVTTOFUZZYCAT", "Copy": "COPYFIELD", "FuzzyNot": "NOT", "FuzzyOr": "OR", "FuzzyAnd": "AND",
    "FuzzyXOr": "XOR", "Sum": "SUM", "Multiply": "MULT", "ADividedByB": "DIVIDE", "Minimum": "MIN", "Maximum": "MAX",
    "Mean": "MEAN", "FuzzyUnion": "UNION", "AMinusB": "DIF", "FuzzySelectedUnion": "SELECTEDUNION",
    "FuzzyWeightedUnion": "WTDUNION", "WeightedMean": "WTDMEAN", "WeightedSum": "WTDSUM",
}

DATA_COMMANDS = sorted(k for k, v in {**BASIC, **FUZZY}.items() if v["out"] == "data")
