"""Reference interpreter for EEMS models (DESIGN.md Appendix A).

Per cell; a cell is None when missing.  Arithmetic is exact (fractions.Fraction) wherever the
operation is rational.  Two things are not exact: the standard deviation (irrational), and the
*decisions* of discontinuous operations (threshold tests, category equality, zero tests) on
operands that the implementation computed in floating point.  Cells whose value depends on such a
decision with an operand within REL of the boundary are marked UNST (unstable) and excluded from
comparison together with everything computed from them.
"""
from __future__ import annotations

import math
from fractions import Fraction

REL = Fraction(1, 10 ** 9)


class _Unst(object):
    def __repr__(self):
        return "UNST"


UNST = _Unst()


class Precondition(Exception):
    """The command's documented precondition does not hold on this data (generator must not emit it)."""


class Res(object):
    __slots__ = ("vals", "fuzzy", "exact", "kind", "dtype", "shape")

    def __init__(self, vals, fuzzy=False, exact=False, kind="data", dtype="float"):
        self.vals = vals
        self.fuzzy = fuzzy
        self.exact = exact      # values are exactly what the implementation holds (read straight from the table)
        self.kind = kind
        self.dtype = dtype

    def valid(self):
        return [v for v in self.vals if v is not None]

    def has_unst(self):
        return any(v is UNST for v in self.vals)


def F(x):
    if isinstance(x, Fraction):
        return x
    if isinstance(x, bool):
        raise TypeError("bool is not a number here")
    if isinstance(x, int):
        return Fraction(x)
    if isinstance(x, float):
        return Fraction(x)  # exact value of the double
    if isinstance(x, str):
        return Fraction(x)
    raise TypeError("not a number: %r" % (x,))


def close(a, b):
    scale = max(1, abs(a), abs(b))
    return abs(a - b) <= REL * scale


def _lift(fn, arrays):
    """Cell-wise combination: missing if any input is missing, unstable if any input is unstable."""
    n = len(arrays[0])
    out = []
    for i in range(n):
        cells = [a[i] for a in arrays]
        if any(c is None for c in cells):
            out.append(None)
        elif any(c is UNST for c in cells):
            out.append(UNST)
        else:
            out.append(fn(cells))
    return out


def _map(fn, vals):
    return [None if v is None else (UNST if v is UNST else fn(v)) for v in vals]


def clamp(v, lo=Fraction(-1), hi=Fraction(1)):
    return lo if v < lo else (hi if v > hi else v)


def _stats(res, need_distinct=2):
    """(valid cells) of an input used for whole-array statistics; raises Precondition if degenerate."""
    vals = res.valid()
    if any(v is UNST for v in vals):
        # whether the documented precondition (enough distinct values) holds cannot be decided
        raise Precondition("statistics over cells whose value is undecidable")
    if len(set(vals)) < need_distinct:
        raise Precondition("fewer than %d distinct valid values" % need_distinct)
    if not res.exact and need_distinct >= 2 and close(min(vals), max(vals)):
        # computed values that differ only at the level of rounding noise: the implementation may well hold a constant
        # array (e.g. both cells clamped to the same bound), for which the statistics are degenerate
        raise Precondition("valid values are indistinguishable (within 1e-9)")
    return vals


def _all_unst(res):
    return [None if v is None else UNST for v in res.vals]


def _mean(vals):
    return sum(vals, Fraction(0)) / len(vals)


def _std(vals):
    m = _mean(vals)
    var = sum(((v - m) ** 2 for v in vals), Fraction(0)) / len(vals)
    return Fraction(math.sqrt(var))


def _decide(x, t, exact):
    """Three-valued comparison of x with boundary t: -1, 0, +1, or None when the decision is unstable."""
    if x == t:
        return 0 if exact else None
    if not exact and close(x, t):
        return None
    return -1 if x < t else 1


def _curve(points):
    pts = sorted(points)
    raws = [p[0] for p in pts]
    if len(set(raws)) != len(raws):
        raise Precondition("duplicate raw values")

    def f(x):
        if x <= pts[0][0]:
            return pts[0][1]
        if x > pts[-1][0]:
            return pts[-1][1]
        for i in range(1, len(pts)):
            r0, n0 = pts[i - 1]
            r1, n1 = pts[i]
            if r0 < x <= r1:
                return n0 + (x - r0) * (n1 - n0) / (r1 - r0)
        raise AssertionError

    return f


def _nums(xs):
    return [F(x) for x in xs]


def _direction(d):
    if d not in (None, "LowToHigh", "HighToLow"):
        raise Precondition("bad direction")
    return d or "LowToHigh"


# ---------------------------------------------------------------------------------------------------
def _zscore_linear(inp, T, Fz, start, end):
    vals = _stats(inp)
    if vals is None:
        return _all_unst(inp)
    m, s = _mean(vals), _std(vals)
    x1, x2 = m + T * s, m + Fz * s
    if x1 == x2:
        raise Precondition("equal z-score thresholds")
    lo, hi = min(start, end), max(start, end)
    return _map(lambda x: clamp(end + (x - x1) * (start - end) / (x2 - x1), lo, hi), inp.vals)


def _cat(inp, raws, normals, default):
    if len(raws) != len(normals):
        raise Precondition("length mismatch")
    if len(set(raws)) != len(raws):
        raise Precondition("duplicate raw values")

    def f(x):
        hit = default
        for r, nv in zip(raws, normals):
            d = _decide(x, r, inp.exact)
            if d is None:
                return UNST
            if d == 0:
                hit = nv
        return hit

    return _map(f, inp.vals)


def _curve_cmd(inp, raws, normals):
    if len(raws) != len(normals) or not raws:
        raise Precondition("length mismatch")
    f = _curve(list(zip(raws, normals)))
    return _map(f, inp.vals)


def _curve_z(inp, zs, normals):
    if len(zs) != len(normals) or not zs:
        raise Precondition("length mismatch")
    if len(set(zs)) != len(zs):
        raise Precondition("duplicate z scores")
    vals = _stats(inp)
    if vals is None:
        return _all_unst(inp)
    m, s = _mean(vals), _std(vals)
    f = _curve([(m + z * s, nv) for z, nv in zip(zs, normals)])
    return _map(f, inp.vals)


def _mean_to_mid(inp, ignore_zeros, normals):
    if len(normals) != 5:
        raise Precondition("five normal values are needed")
    vals = _stats(inp)
    if vals is None:
        return _all_unst(inp)
    low, high = min(vals), max(vals)
    pool = vals
    if ignore_zeros:
        pool = []
        for v in vals:
            d = _decide(v, Fraction(0), inp.exact)
            if d is None:
                raise Precondition("cannot decide which cells are zero")
            if d != 0:
                pool.append(v)
        if len(set(pool)) < 2 or (not inp.exact and close(min(pool), max(pool))):
            raise Precondition("fewer than two distinct non-zero values")
    m = _mean(pool)
    below, above = [], []
    for v in pool:
        # the mean is computed in floating point by the implementation: a cell (nearly) equal to it may fall on
        # either side, unless the data are exact and the cell equals the mean exactly (then so does the float mean)
        if close(v, m) and not (inp.exact and v == m):
            raise Precondition("a cell is indistinguishable from the mean")
        (below if v <= m else above).append(v)
    if not below or not above:
        raise Precondition("degenerate split")
    raws = [low, _mean(below), m, _mean(above), high]
    normals = list(normals)
    for a, b in ((raws[-1], raws[-2]), (raws[0], raws[1])):
        if a != b and close(a, b):
            # an end control point that is distinct from, but indistinguishable (1e-9) from, the extreme: whether it is
            # merged is a floating-point decision of the implementation
            raise Precondition("end control points indistinguishable")
    if raws[-1] == raws[-2]:
        del raws[-2]
        del normals[-2]
    if raws[0] == raws[1]:
        del raws[1]
        del normals[1]
    if len(set(raws)) != len(raws):
        raise Precondition("duplicate control points")
    f = _curve(list(zip(raws, normals)))
    return _map(f, inp.vals)


def _fz_clamp(vals):
    return _map(clamp, vals)


ALIASES = {"MyFuzzyOr": "FuzzyOr", "MySum": "Sum", "OnlyInX": "Copy", "SubDataOut": "Copy"}   # plug-in commands


def evaluate(cmd, args, env):
    """Evaluate one command.  args: parameter name -> JSON value; env: result name -> Res."""
    cmd = ALIASES.get(cmd, cmd)
    if cmd == "GenericOut":
        return Res([Fraction(1), Fraction(2)], kind="generic")
    g = args.get

    def one(name="InFieldName"):
        return env[args[name]]

    def many(name="InFieldNames"):
        rs = [env[x] for x in args[name]]
        if not rs:
            raise Precondition("empty inputs")
        return rs

    if cmd == "Copy":
        r = one()
        return Res(list(r.vals), False, r.exact, dtype=r.dtype)
    if cmd == "AMinusB":
        return Res(_lift(lambda c: c[0] - c[1], [env[args["A"]].vals, env[args["B"]].vals]))
    if cmd == "ADividedByB":
        a, b = env[args["A"]], env[args["B"]]

        def div(c):
            d = _decide(c[1], Fraction(0), b.exact)
            if d is None:
                return UNST
            if d == 0:
                return None
            return c[0] / c[1]

        return Res(_lift(div, [a.vals, b.vals]))
    if cmd == "Sum":
        return Res(_lift(lambda c: sum(c, Fraction(0)), [r.vals for r in many()]))
    if cmd == "Multiply":
        def prod(c):
            p = Fraction(1)
            for x in c:
                p *= x
            return p
        return Res(_lift(prod, [r.vals for r in many()]))
    if cmd == "Minimum":
        return Res(_lift(min, [r.vals for r in many()]))
    if cmd == "Maximum":
        return Res(_lift(max, [r.vals for r in many()]))
    if cmd == "Mean":
        return Res(_lift(lambda c: sum(c, Fraction(0)) / len(c), [r.vals for r in many()]))
    if cmd in ("WeightedSum", "WeightedMean", "FuzzyWeightedUnion"):
        rs = many()
        w = _nums(args["Weights"])
        if len(w) != len(rs):
            raise Precondition("weights count")
        tot = sum(w, Fraction(0))
        if cmd != "WeightedSum" and tot == 0:
            raise Precondition("weights sum to zero")

        def ws(c):
            s = sum((x * wi for x, wi in zip(c, w)), Fraction(0))
            if cmd == "WeightedSum":
                return s
            s = s / tot
            return clamp(s) if cmd == "FuzzyWeightedUnion" else s

        return Res(_lift(ws, [r.vals for r in rs]), fuzzy=(cmd == "FuzzyWeightedUnion"))
    if cmd == "Normalize":
        inp = one()
        start, end = F(g("StartVal", 0)), F(g("EndVal", 1))
        vals = _stats(inp)
        if vals is None:
            return Res(_all_unst(inp))
        lo, hi = min(vals), max(vals)
        return Res(_map(lambda x: start + (x - lo) / (hi - lo) * (end - start), inp.vals))
    if cmd == "NormalizeZScore":
        if "TrueThresholdZScore" not in args or "FalseThresholdZScore" not in args:
            raise Precondition("z-score thresholds must be explicit (documentation and code disagree on defaults)")
        start, end = F(g("StartVal", 0)), F(g("EndVal", 1))
        if not start < end:
            raise Precondition("StartVal < EndVal")
        return Res(_zscore_linear(one(), F(args["TrueThresholdZScore"]), F(args["FalseThresholdZScore"]), start, end))
    if cmd == "CvtToFuzzyZScore":
        T, Fz = F(g("TrueThresholdZScore", 1)), F(g("FalseThresholdZScore", -1))
        return Res(_fz_clamp(_zscore_linear(one(), T, Fz, Fraction(-1), Fraction(1))), fuzzy=True)
    if cmd == "NormalizeCat":
        return Res(_cat(one(), _nums(args["RawValues"]), _nums(args["NormalValues"]), F(args["DefaultNormalValue"])))
    if cmd == "CvtToFuzzyCat":
        return Res(_fz_clamp(_cat(one(), _nums(args["RawValues"]), _nums(args["FuzzyValues"]),
                                  F(args["DefaultFuzzyValue"]))), fuzzy=True)
    if cmd == "NormalizeCurve":
        return Res(_curve_cmd(one(), _nums(args["RawValues"]), _nums(args["NormalValues"])))
    if cmd == "CvtToFuzzyCurve":
        return Res(_fz_clamp(_curve_cmd(one(), _nums(args["RawValues"]), _nums(args["FuzzyValues"]))), fuzzy=True)
    if cmd == "NormalizeCurveZScore":
        return Res(_curve_z(one(), _nums(args["ZScoreValues"]), _nums(args["NormalValues"])))
    if cmd == "CvtToFuzzyCurveZScore":
        return Res(_fz_clamp(_curve_z(one(), _nums(args["ZScoreValues"]), _nums(args["FuzzyValues"]))), fuzzy=True)
    if cmd == "NormalizeMeanToMid":
        return Res(_mean_to_mid(one(), _bool(args["IgnoreZeros"]), _nums(args["NormalValues"])))
    if cmd == "CvtToFuzzyMeanToMid":
        return Res(_fz_clamp(_mean_to_mid(one(), _bool(args["IgnoreZeros"]), _nums(args["FuzzyValues"]))), fuzzy=True)
    if cmd == "CvtToFuzzy":
        inp = one()
        d = _direction(g("Direction"))
        if "TrueThreshold" in args and "FalseThreshold" in args:
            T, Fz = F(args["TrueThreshold"]), F(args["FalseThreshold"])
        else:
            vals = _stats(inp)
            if vals is None:
                return Res(_all_unst(inp), fuzzy=True)
            lo, hi = min(vals), max(vals)
            Fz = F(args["FalseThreshold"]) if "FalseThreshold" in args else (hi if d == "HighToLow" else lo)
            T = F(args["TrueThreshold"]) if "TrueThreshold" in args else (lo if d == "HighToLow" else hi)
        if T == Fz:
            raise Precondition("equal thresholds")
        return Res(_map(lambda x: clamp(1 - 2 * (x - T) / (Fz - T)), inp.vals), fuzzy=True)
    if cmd == "CvtToBinary":
        inp = one()
        t = F(args["Threshold"])
        d = args["Direction"]
        if d not in ("LowToHigh", "HighToLow"):
            raise Precondition("bad direction")

        def f(x):
            c = _decide(x, t, inp.exact)
            if c is None:
                return UNST
            below = c < 0
            if d == "LowToHigh":
                return Fraction(0) if below else Fraction(1)
            return Fraction(1) if below else Fraction(0)

        return Res(_map(f, inp.vals), fuzzy=True)
    if cmd == "FuzzyOr":
        return Res(_lift(lambda c: clamp(max(c)), [r.vals for r in many()]), fuzzy=True)
    if cmd == "FuzzyAnd":
        return Res(_lift(lambda c: clamp(min(c)), [r.vals for r in many()]), fuzzy=True)
    if cmd == "FuzzyNot":
        return Res(_map(lambda x: clamp(-x), one().vals), fuzzy=True)
    if cmd == "FuzzyUnion":
        return Res(_lift(lambda c: clamp(sum(c, Fraction(0)) / len(c)), [r.vals for r in many()]), fuzzy=True)
    if cmd == "FuzzySelectedUnion":
        rs = many()
        k = args["NumberToConsider"]
        if not isinstance(k, int) or isinstance(k, bool) or not 1 <= k <= len(rs):
            raise Precondition("1 <= k <= n")
        which = args["TruestOrFalsest"]
        if which not in ("Truest", "Falsest"):
            raise Precondition("Truest or Falsest")

        def sel(c):
            s = sorted(c)
            pick = s[-k:] if which == "Truest" else s[:k]
            return clamp(sum(pick, Fraction(0)) / k)

        return Res(_lift(sel, [r.vals for r in rs]), fuzzy=True)
    if cmd == "FuzzyXOr":
        rs = many()
        if len(rs) < 2:
            raise Precondition("at least two inputs")

        def xor(c):
            s = sorted(c)
            t1, t2 = s[-1], s[-2]
            if t1 <= -1:
                return Fraction(-1)
            return clamp(t1 - (t1 - t2) * (t2 + 1) / (t1 + 1))

        return Res(_lift(xor, [r.vals for r in rs]), fuzzy=True)
    if cmd == "CvtFromFuzzy":
        T, Fz = F(args["TrueThreshold"]), F(args["FalseThreshold"])
        if T == Fz:
            raise Precondition("equal thresholds")
        return Res(_map(lambda x: T + (x - 1) * (Fz - T) / (-2), one().vals))
    raise KeyError("no reference semantics for %s" % cmd)


def _bool(v):
    if isinstance(v, bool):
        return v
    if isinstance(v, int):
        return bool(v)
    if isinstance(v, str):
        if v.lower() == "true":
            return True
        if v.lower() == "false":
            return False
        return bool(int(v))
    raise Precondition("not a boolean")


def read_column(column, args=None):
    """column: {"name", "type", "missing", "values"}; args: the EEMSRead arguments (MissingVal / DataType decide the
    mask and element type of THIS read; without args the column's own declaration is used)."""
    if args is None:
        mv = column.get("missing")
        as_int = column.get("type") == "Integer"
    else:
        mv = args.get("MissingVal")
        as_int = args.get("DataType") == "Integer"
    vals = []
    for v in column["values"]:
        fv = F(v)
        if as_int and fv.denominator != 1:
            raise Precondition("Integer read of a non-integral column (truncation rules are not specified)")
        if mv is not None and fv == F(mv):
            vals.append(None)
        else:
            vals.append(fv)
    return Res(vals, False, True, dtype="int" if as_int else "float")


STATISTICS_BASED = ("Normalize", "NormalizeZScore", "NormalizeCurveZScore", "NormalizeMeanToMid", "CvtToFuzzy",
                    "CvtToFuzzyZScore", "CvtToFuzzyCurveZScore", "CvtToFuzzyMeanToMid")

DELTA = Fraction(1, 2 ** 43)      # ~1.1e-13 relative perturbation of every computed cell (conditioning probe)
COND_TOL = Fraction(1, 10 ** 10)  # cells that move more than this (relative to max(1,|v|)) are ill-conditioned


def _post(res, perturb, salt):
    """Keep Fractions small; optionally perturb every computed cell (conditioning probe)."""
    out = []
    for i, v in enumerate(res.vals):
        if v is None or v is UNST:
            out.append(v)
            continue
        if perturb:
            sign = 1 if ((salt * 31 + i * 17) >> 1) % 2 == 0 else -1
            v = v * (1 + sign * DELTA)
        if v.denominator.bit_length() > 256:
            v = Fraction(float(v))
        out.append(v)
    res.vals = out
    return res


def run_model(table, cmds, perturb=False):
    """Evaluate a whole model (cmds in any order; references resolved by name)."""
    cols = {c["name"]: c for c in table["columns"]}
    by_name = {c["name"]: c for c in cmds}
    index = {c["name"]: i for i, c in enumerate(cmds)}
    env = {}

    def get(name, stack=()):
        if name in env:
            return env[name]
        if name in stack:
            raise Precondition("cycle")
        c = by_name[name]
        if c["cmd"] == "EEMSRead":
            env[name] = read_column(cols[c["args"]["InFieldName"]], c["args"])
            return env[name]
        for ref in refs_of(c):
            get(ref, stack + (name,))
        scope = env
        if perturb and c["cmd"] in STATISTICS_BASED:
            # The conditioning probe also disturbs values that come straight from the table when they feed a command
            # whose result depends on statistics of the column (z-scores, curves over mean / std, min-max scaling): on a
            # nearly constant column the implementation's own rounding is amplified by 1e7 and more, exact inputs or not
            scope = dict(env)
            for ref in refs_of(c):
                src = env[ref]
                if src.exact:
                    twin = Res(list(src.vals), src.fuzzy, src.exact, src.kind, src.dtype)
                    _post(twin, True, index[name] + 7)
                    scope[ref] = twin
        res = evaluate(c["cmd"], c["args"], scope)
        if not res.exact:
            _post(res, perturb, index[name] + 1)
        env[name] = res
        return env[name]

    for c in cmds:
        if c["cmd"] in ("EEMSWrite", "PrintVars"):
            for ref in refs_of(c):
                get(ref)
            continue
        get(c["name"])
    return env


def run_model_conditioned(table, cmds):
    """Reference results with ill-conditioned cells marked UNST (compare exact vs perturbed evaluation)."""
    env = run_model(table, cmds, perturb=False)
    envp = run_model(table, cmds, perturb=True)
    n_unst = 0
    for name, res in env.items():
        other = envp[name]
        vals = []
        for a, b in zip(res.vals, other.vals):
            if a is None and b is None:
                vals.append(None)
            elif a is None or b is None or a is UNST or b is UNST:
                vals.append(UNST)
            elif abs(a - b) > COND_TOL * max(1, abs(a)):
                vals.append(UNST)
            else:
                vals.append(a)
        n_unst += sum(1 for v in vals if v is UNST)
        res.vals = vals
    return env, n_unst


REF_PARAMS = ("InFieldName", "InFieldNames", "A", "B", "OutFieldNames")


def refs_of(c):
    out = []
    if c["cmd"] == "EEMSRead":
        return out
    for p in REF_PARAMS:
        if p in c["args"]:
            v = c["args"][p]
            out.extend(v if isinstance(v, list) else [v])
    return out
