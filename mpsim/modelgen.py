"""Seeded generator of well-typed EEMS models (typed random DAGs over all built-in data commands)
on a CSV table, plus the CSV text that goes on the simulated disk.

A model is {"table": {...}, "cmds": [{"name", "cmd", "args"}, ...]} with cmds in a topological order.
The generator evaluates the reference interpreter while it builds the graph so that only commands
whose documented preconditions hold on the actual data are emitted.
"""
from __future__ import annotations

from fractions import Fraction

from .refmodel import eems
from .refmodel.declarations import table as decl_table

WORK = "/sim/work"
IN_CSV = WORK + "/in.csv"


def lattice(rng, lo=-32, hi=32, den=8):
    k = rng.randint(lo, hi)
    if k % den == 0 and rng.random() < 0.5:
        return k // den                     # an integer literal
    return k / float(den)                   # dyadic: exact in binary, repr has '.' and no exponent


def distinct_lattice(rng, n, lo=-32, hi=32, den=8):
    ks = rng.sample(range(lo, hi + 1), n)
    return [(k // den if (k % den == 0 and rng.random() < 0.5) else k / float(den)) for k in ks]


def gen_table(rng, tier="quick", ints=None, missing=None):
    ncols = rng.randint(1, 4)
    nrows = rng.choice([2, 3, 4, 5, 6, 8, 12])
    cols = []
    for i in range(ncols):
        is_int = (rng.random() < 0.3) if ints is None else ints
        has_missing = (rng.random() < 0.4) if missing is None else missing
        if is_int:
            vals = [rng.randint(-5, 9) for _ in range(nrows)]
        else:
            vals = [rng.randint(-32, 32) / 4.0 for _ in range(nrows)]
        if rng.random() < 0.3:
            vals[rng.randrange(nrows)] = 0 if is_int else 0.0
        # at least two distinct valid values
        if len(set(vals)) < 2:
            vals[0] = vals[-1] + 1
        mv = None
        if has_missing and nrows >= 3:
            mv = rng.choice([-9999, -9999, -1, 99]) if is_int else rng.choice([-9999, -9999.0, -99.5, 1000000])
            vals = [v for v in vals]
            keep = [i2 for i2 in range(nrows)]
            rng.shuffle(keep)
            nmiss = rng.randint(1, max(1, nrows - 2))
            valid_idx = sorted(keep[nmiss:])
            if len(set(vals[j] for j in valid_idx)) < 2 and len(valid_idx) >= 2:
                vals[valid_idx[0]] = vals[valid_idx[1]] + 1
            for j in keep[:nmiss]:
                vals[j] = mv
            # no accidental missing cells
            for j in valid_idx:
                if vals[j] == mv:
                    vals[j] = 3
            if not is_int and valid_idx and rng.random() < 0.25:
                # a real value right next to the missing-value marker stays a value
                near = mv + rng.choice([4e-6, -3e-6]) * max(1.0, abs(mv)) if mv else rng.choice([1e-9, -2e-9])
                vals[rng.choice(valid_idx)] = near
        elif has_missing:
            mv = -9999  # declared but absent from the data
        cols.append({"name": "c%d" % i, "type": "Integer" if is_int else "Float", "missing": mv, "values": vals})
    blanks = sorted(rng.sample(range(1, nrows + 1), rng.randint(0, 2))) if rng.random() < 0.2 else []
    return {"path": IN_CSV, "columns": cols, "blank_after_rows": blanks}


def csv_text(table):
    cols = table["columns"]
    lines = [",".join(c["name"] for c in cols)]
    nrows = len(cols[0]["values"])
    for r in range(nrows):
        cells = []
        for c in cols:
            v = c["values"][r]
            cells.append(str(v) if c["type"] == "Integer" else repr(float(v)))
        lines.append(",".join(cells))
        if (r + 1) in table.get("blank_after_rows", []):
            lines.append("")
    return "\n".join(lines) + "\n"


# ---------------------------------------------------------------------------------------------------
NARY_NF = ("Sum", "Multiply", "Minimum", "Maximum", "Mean", "WeightedSum", "WeightedMean")
NARY_FZ = ("FuzzyUnion", "FuzzyWeightedUnion", "FuzzySelectedUnion", "FuzzyOr", "FuzzyAnd", "FuzzyXOr")
UNARY_NF = ("Copy", "Normalize", "NormalizeZScore", "NormalizeCat", "NormalizeCurve", "NormalizeMeanToMid",
            "NormalizeCurveZScore", "CvtToFuzzy", "CvtToFuzzyZScore", "CvtToFuzzyCat", "CvtToFuzzyCurve",
            "CvtToFuzzyMeanToMid", "CvtToFuzzyCurveZScore", "CvtToBinary")
BINARY_NF = ("AMinusB", "ADividedByB")
UNARY_FZ = ("FuzzyNot", "CvtFromFuzzy")
ALL_OPS = NARY_NF + NARY_FZ + UNARY_NF + BINARY_NF + UNARY_FZ


def _values_of(res):
    return sorted(set(v for v in res.vals if v is not None and v is not eems.UNST))


def gen_args(rng, cmd, nf, fz, env):
    """Arguments for `cmd` given pools of non-fuzzy / fuzzy result names; None if not applicable."""
    def pick(pool, k=None):
        if not pool:
            return None
        if k is None:
            # prefer recent results so that depth grows
            return pool[-1 - min(len(pool) - 1, int(rng.expovariate(0.7)))] if rng.random() < 0.6 else rng.choice(pool)
        return [pick(pool) for _ in range(k)]

    if cmd in NARY_NF or cmd in NARY_FZ:
        pool = nf if cmd in NARY_NF else fz
        if not pool:
            return None
        lo = 2 if cmd == "FuzzyXOr" else 1
        k = rng.choice([lo, 2, 2, 3, 3, 4, 5])
        k = max(k, lo)
        names = pick(pool, k)
        args = {"InFieldNames": names}
        if cmd in ("WeightedSum", "WeightedMean", "FuzzyWeightedUnion"):
            w = [rng.choice([1, 2, 3, 0.5, 0.25, 1.5, 4, 0.125]) if rng.random() < 0.85 else lattice(rng) for _ in names]
            if sum(Fraction(x) for x in w) == 0:
                w[0] = 1
            args["Weights"] = w
        if cmd == "FuzzySelectedUnion":
            args["TruestOrFalsest"] = rng.choice(["Truest", "Falsest"])
            args["NumberToConsider"] = rng.randint(1, len(names))
        return args
    if cmd in BINARY_NF:
        if not nf:
            return None
        return {"A": pick(nf), "B": pick(nf)}
    if cmd in UNARY_FZ:
        if not fz:
            return None
        args = {"InFieldName": pick(fz)}
        if cmd == "CvtFromFuzzy":
            t, f = distinct_lattice(rng, 2)
            args["TrueThreshold"], args["FalseThreshold"] = t, f
        return args
    # unary, non-fuzzy input
    if cmd == "Copy":
        pool = nf + fz if rng.random() < 0.3 else nf
        if not pool:
            return None
        return {"InFieldName": pick(pool)}
    if not nf:
        return None
    src = pick(nf)
    args = {"InFieldName": src}
    data = _values_of(env[src])
    if cmd == "Normalize":
        if rng.random() < 0.5:
            a, b = distinct_lattice(rng, 2)
            args["StartVal"], args["EndVal"] = a, b
        elif rng.random() < 0.3:
            args["EndVal"] = lattice(rng, 9, 32)
    elif cmd == "NormalizeZScore":
        t, f = distinct_lattice(rng, 2, -16, 16)
        args["TrueThresholdZScore"], args["FalseThresholdZScore"] = t, f
        if rng.random() < 0.5:
            a, b = sorted(distinct_lattice(rng, 2), key=Fraction)
            args["StartVal"], args["EndVal"] = a, b
    elif cmd == "CvtToFuzzyZScore":
        if rng.random() < 0.7:
            t, f = distinct_lattice(rng, 2, -16, 16)
            args["TrueThresholdZScore"], args["FalseThresholdZScore"] = t, f
    elif cmd in ("NormalizeCat", "CvtToFuzzyCat"):
        k = rng.randint(1, 4)
        raws = []
        # categories that occur in the data (exact ones) and some that do not
        cand = [v for v in data if v.denominator == 1][:6]
        for _ in range(k):
            if cand and rng.random() < 0.7:
                v = rng.choice(cand)
                raws.append(int(v))
            else:
                raws.append(rng.randint(-6, 10))
        raws = list(dict.fromkeys(raws))
        hi = 12 if cmd == "CvtToFuzzyCat" else 32     # fuzzy values may lie outside [-1,1]: they are clamped
        vals = [lattice(rng, -hi, hi) for _ in raws]
        args["RawValues"] = raws
        args["FuzzyValues" if cmd == "CvtToFuzzyCat" else "NormalValues"] = vals
        args["DefaultFuzzyValue" if cmd == "CvtToFuzzyCat" else "DefaultNormalValue"] = lattice(rng, -hi, hi)
    elif cmd in ("NormalizeCurve", "CvtToFuzzyCurve"):
        k = rng.randint(2, 5)
        raws = distinct_lattice(rng, k, -40, 40, 4)
        if rng.random() < 0.5:
            raws = sorted(raws, key=Fraction)
        hi = 12 if cmd == "CvtToFuzzyCurve" else 32
        args["RawValues"] = raws
        args["FuzzyValues" if cmd == "CvtToFuzzyCurve" else "NormalValues"] = [lattice(rng, -hi, hi) for _ in raws]
    elif cmd in ("NormalizeCurveZScore", "CvtToFuzzyCurveZScore"):
        k = rng.randint(2, 5)
        zs = distinct_lattice(rng, k, -16, 16)
        hi = 12 if cmd == "CvtToFuzzyCurveZScore" else 32
        args["ZScoreValues"] = zs
        args["FuzzyValues" if cmd == "CvtToFuzzyCurveZScore" else "NormalValues"] = [lattice(rng, -hi, hi) for _ in zs]
    elif cmd in ("NormalizeMeanToMid", "CvtToFuzzyMeanToMid"):
        args["IgnoreZeros"] = rng.choice([True, False, "true", "False", 1, 0])
        hi = 12 if cmd == "CvtToFuzzyMeanToMid" else 32
        vals = sorted((lattice(rng, -hi, hi) for _ in range(5)), key=Fraction) if rng.random() < 0.7 else \
            [lattice(rng, -hi, hi) for _ in range(5)]
        args["FuzzyValues" if cmd == "CvtToFuzzyMeanToMid" else "NormalValues"] = vals
    elif cmd == "CvtToFuzzy":
        r = rng.random()
        if r < 0.5:
            t, f = distinct_lattice(rng, 2)
            if r < 0.08:
                # the settings under which the conversion is the identity (or a sign flip) on [-1, 1]: a tempting
                # shortcut (seeded change C09-i1); no extra draw, so other scenarios keep their streams
                t, f = (1, -1) if r < 0.05 else (-1, 1)
            args["TrueThreshold"], args["FalseThreshold"] = t, f
        elif r < 0.65:
            args["TrueThreshold"] = lattice(rng)
        elif r < 0.8:
            args["FalseThreshold"] = lattice(rng)
        if rng.random() < 0.5:
            args["Direction"] = rng.choice(["LowToHigh", "HighToLow"])
    elif cmd == "CvtToBinary":
        if data and rng.random() < 0.5:
            v = rng.choice(data)
            args["Threshold"] = int(v) if v.denominator == 1 else float(v)
            if isinstance(args["Threshold"], float) and ("e" in repr(args["Threshold"]) or len(repr(args["Threshold"])) > 12):
                args["Threshold"] = lattice(rng)
        else:
            args["Threshold"] = lattice(rng)
        args["Direction"] = rng.choice(["LowToHigh", "HighToLow"])
    return args


def gen_model(rng, tier="quick", ints=None, missing=None, ncmds=None, ops=ALL_OPS, weights=None):
    table = gen_table(rng, tier, ints=ints, missing=missing)
    cols = table["columns"]
    cmds = []
    env = {}
    nf, fz = [], []
    nread = rng.randint(1, len(cols))
    read_cols = rng.sample(range(len(cols)), nread)
    rel = rng.random() < 0.5
    for j, ci in enumerate(read_cols):
        c = cols[ci]
        name = "r%d" % j
        args = {"InFileName": "in.csv" if rel else table["path"], "InFieldName": c["name"]}
        if c["missing"] is not None:
            args["MissingVal"] = c["missing"]
        if c["type"] == "Integer":
            args["DataType"] = "Integer"
        elif rng.random() < 0.3:
            args["DataType"] = "Float"
        cmds.append({"name": name, "cmd": "EEMSRead", "args": args})
        env[name] = eems.read_column(c, args)
        nf.append(name)
    # the same column read again with other options (another missing value, none at all, another element type)
    for j in range(len(cmds), len(cmds) + rng.choice([0, 0, 0, 1, 2])):
        c = cols[rng.choice(read_cols)]
        args = {"InFileName": "in.csv" if rel else table["path"], "InFieldName": c["name"]}
        r = rng.random()
        valid = [v for v in c["values"] if v != c["missing"]]
        if r < 0.4 and valid:
            args["MissingVal"] = rng.choice(valid)            # a value that really occurs becomes the missing value
        elif r < 0.6 and c["missing"] is not None:
            args["MissingVal"] = c["missing"]
        integral = all(float(v) == int(v) for v in c["values"])
        if integral and rng.random() < 0.5:
            args["DataType"] = "Integer"
        elif rng.random() < 0.3:
            args["DataType"] = "Float"
        name = "r%d" % j
        try:
            res = eems.read_column(c, args)
        except eems.Precondition:
            continue
        if len(set(v for v in res.vals if v is not None)) < 1:
            continue
        cmds.append({"name": name, "cmd": "EEMSRead", "args": args})
        env[name] = res
        nf.append(name)
        if "MissingVal" in args and isinstance(args["MissingVal"], float) and "e" in repr(args["MissingVal"]):
            args["MissingVal"] = int(args["MissingVal"]) if args["MissingVal"] == int(args["MissingVal"]) else 0.5
    if ncmds is None:
        hi = 10 if tier == "quick" else 25
        ncmds = rng.choice([rng.randint(2, 5), rng.randint(2, hi), rng.randint(3, hi)])
    target = len(cmds) + max(1, ncmds - len(cmds))
    attempts = 0
    ops = list(ops)
    while len(cmds) < target and attempts < 200:
        attempts += 1
        # bias towards producing fuzzy data early so that the fuzzy operators become applicable
        if not fz and rng.random() < 0.5:
            cmd = rng.choice([c for c in ops if c.startswith("CvtTo")] or ops)
        else:
            cmd = rng.choice(ops)
        args = gen_args(rng, cmd, nf, fz, env)
        if args is None:
            continue
        name = "v%d" % len(cmds)
        try:
            res = eems.evaluate(cmd, args, env)
        except eems.Precondition:
            continue
        vals = [v for v in res.vals if v is not None and v is not eems.UNST]
        if any(abs(v) > 10 ** 6 for v in vals):
            continue
        if not vals:
            continue   # everything missing: nothing left to compute on
        eems._post(res, False, 0)
        env[name] = res
        cmds.append({"name": name, "cmd": cmd, "args": args})
        (fz if res.fuzzy else nf).append(name)
    return {"table": table, "cmds": cmds, "working_dir": WORK}


def add_sinks(rng, model, write=True, printvars=True, print_to_file=None):
    """Append an EEMSWrite (and optionally PrintVars) so that side effects are pending (C12, C13)."""
    names = [c["name"] for c in model["cmds"] if c["cmd"] not in ("EEMSWrite", "PrintVars")]
    k = rng.randint(1, min(4, len(names)))
    out = rng.sample(names, k)
    cmds = model["cmds"]
    if printvars:
        args = {"InFieldNames": rng.sample(names, rng.randint(1, min(3, len(names))))}
        to_file = rng.random() < 0.5 if print_to_file is None else print_to_file
        if to_file:
            args["OutFileName"] = "print.txt"
        cmds.append({"name": "pv", "cmd": "PrintVars", "args": args})
    if write:
        cmds.append({"name": "out", "cmd": "EEMSWrite",
                     "args": {"OutFileName": rng.choice(["out.csv", WORK + "/out.csv"]), "OutFieldNames": out}})
    return model


DECL = decl_table("csv")
