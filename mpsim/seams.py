"""Seams that need no hook in /repo: execute wrappers, std streams, process hygiene."""
from __future__ import annotations

import io
import sys
import warnings


class ExecMonitor(object):
    """Class-level wrapper around ``execute`` of every command class of a program.

    Counts *outermost* entries per command instance (``super().execute`` chains inside one
    command count once), maintains the execute stack, and emits exec-enter/exit/raise events.
    """

    def __init__(self, log, on_enter=None, on_exit=None, on_raise=None, name_of=None, nesting_cap=None,
                 on_runaway=None):
        self.log = log
        self.nesting_cap = nesting_cap    # bounded progress: deeper nesting of execute ends the run (deterministically)
        self.on_runaway = on_runaway
        self.runaway = False
        self.on_enter = on_enter
        self.on_exit = on_exit
        self.on_raise = on_raise
        self.name_of = name_of or (lambda inst: getattr(inst, "result_name", "?"))
        self._active = {}     # id(inst) -> list of wrapped functions currently active on that instance
        self._keep = {}       # id(inst) -> inst (keeps ids unique for the run)
        self.counts = {}      # command key -> number of outermost entries
        self.returned = {}    # command key -> number of normal outermost exits
        self.stack = []       # keys of commands whose execute is active (outermost entries)
        self.max_stack = 0
        self._saved = []
        self.instances = {}   # key -> instance

    def key(self, inst):
        return self.name_of(inst)

    def install(self, classes):
        seen = set()
        for cls in classes:
            for k in cls.__mro__:
                if k is object or id(k) in seen:
                    continue
                seen.add(id(k))
                fn = k.__dict__.get("execute")
                if fn is None or getattr(fn, "_mpsim_wrapped", False):
                    continue
                self._saved.append((k, fn))
                setattr(k, "execute", self._wrap(fn))

    def uninstall(self):
        for k, fn in reversed(self._saved):
            setattr(k, "execute", fn)
        self._saved = []

    def _wrap(self, fn):
        mon = self

        def execute(inst, *args, **kwargs):
            iid = id(inst)
            active = mon._active.setdefault(iid, [])
            mon._keep[iid] = inst
            # A super().execute chain enters a *different* function on the same instance (inner call);
            # re-entering the same function on the same instance is a genuine (recursive) re-execution.
            outer = not active or fn in active
            active.append(fn)
            if outer:
                key = mon.key(inst)
                mon.instances[key] = inst
                mon.counts[key] = mon.counts.get(key, 0) + 1
                mon.stack.append(key)
                if len(mon.stack) > mon.max_stack:
                    mon.max_stack = len(mon.stack)
                mon.log.emit("exec-enter", cmd=key, n=mon.counts[key], depth=len(mon.stack))
            try:
                if outer and mon.nesting_cap is not None and len(mon.stack) > mon.nesting_cap:
                    mon.runaway = True
                    mon.log.emit("runaway", cmd=key, depth=len(mon.stack))
                    if mon.on_runaway:
                        mon.on_runaway(key, len(mon.stack))
                    from .core import SimAbort
                    raise SimAbort()
                if outer and mon.on_enter:
                    mon.on_enter(inst, key)    # may raise an injected fault: it then comes out of execute()
                res = fn(inst, *args, **kwargs)
            except BaseException as exc:
                active.pop()
                if outer:
                    mon.stack.pop()
                    mon.log.emit("exec-raise", cmd=key, exc=type(exc).__name__)
                    if mon.on_raise:
                        mon.on_raise(inst, key, exc)
                raise
            active.pop()
            if outer:
                mon.stack.pop()
                mon.returned[key] = mon.returned.get(key, 0) + 1
                mon.log.emit("exec-exit", cmd=key)
                if mon.on_exit:
                    mon.on_exit(inst, key, res)
            return res

        execute._mpsim_wrapped = True
        execute.__wrapped__ = fn
        return execute


class RecordingStream(io.TextIOBase):
    def __init__(self, log, name):
        self.log = log
        self.name_ = name
        self.parts = []

    def writable(self):
        return True

    def write(self, s):
        if not isinstance(s, str):
            s = str(s)
        if s:
            self.parts.append(s)
            self.log.emit(self.name_, n=len(s))
        return len(s)

    def flush(self):
        pass

    def getvalue(self):
        return "".join(self.parts)

    def isatty(self):
        return False


class StdCapture(object):
    def __init__(self, log):
        self.out = RecordingStream(log, "stdout")
        self.err = RecordingStream(log, "stderr")

    def __enter__(self):
        self._so, self._se = sys.stdout, sys.stderr
        sys.stdout, sys.stderr = self.out, self.err
        return self

    def __exit__(self, *a):
        sys.stdout, sys.stderr = self._so, self._se
        return False


class Hygiene(object):
    """Save and restore process-global state around one in-process run."""

    def __init__(self, recursion_limit=None, debug_logging=False):
        self.recursion_limit = recursion_limit
        # the embedding application may have switched logging to DEBUG with a handler that formats every record
        self.debug_logging = debug_logging

    def __enter__(self):
        import numpy

        self._rl = sys.getrecursionlimit()
        # The stack available to the code under test is a simulated resource: the same number of frames below this point
        # whether the run happens in a pool worker, in a forked child or in a fresh interpreter (the depth at which the
        # interpreter gives up must not depend on how deep the harness itself happens to be).
        depth = 0
        f = sys._getframe()
        while f is not None:
            depth += 1
            f = f.f_back
        sys.setrecursionlimit(depth + (self.recursion_limit or 1000))
        self._np = numpy.seterr(all="ignore")
        self._wf = warnings.filters[:]
        warnings.simplefilter("ignore")
        self._mods = set(sys.modules)
        self._log = None
        if self.debug_logging:
            import logging
            root = logging.getLogger()
            handler = logging.StreamHandler(io.StringIO())
            handler.setFormatter(logging.Formatter("%(name)s %(levelname)s %(message)s"))
            self._log = (root.level, handler, logging.raiseExceptions)
            root.addHandler(handler)
            root.setLevel(logging.DEBUG)
        return self

    def __exit__(self, *a):
        import numpy

        sys.setrecursionlimit(self._rl)
        if self._log:
            import logging
            root = logging.getLogger()
            root.removeHandler(self._log[1])
            root.setLevel(self._log[0])
        numpy.seterr(**self._np)
        warnings.filters[:] = self._wf
        return False


def exc_chain(exc, limit=50):
    """All exceptions reachable through __cause__/__context__/.exc (UnexpectedError)."""
    out, todo, seen = [], [exc], set()
    while todo and len(out) < limit:
        e = todo.pop()
        if e is None or id(e) in seen:
            continue
        seen.add(id(e))
        out.append(e)
        todo.append(getattr(e, "__cause__", None))
        todo.append(getattr(e, "__context__", None))
        inner = getattr(e, "exc", None)
        if isinstance(inner, BaseException):
            todo.append(inner)
    return out


def innermost_frame(exc, prefer=("mpilot",)):
    """(module-ish file, function) of the innermost traceback frame inside the code under test."""
    tb = exc.__traceback__
    best = None
    last = None
    while tb is not None:
        code = tb.tb_frame.f_code
        fname = code.co_filename.replace("\\", "/")
        last = (fname.rsplit("/", 1)[-1], code.co_name)
        for p in prefer:
            if "/" + p + "/" in fname:
                qual = getattr(code, "co_qualname", code.co_name)
                rel = fname.split("/" + p + "/", 1)[1]
                best = (p + "/" + rel, qual)
        tb = tb.tb_next
    return best or last or ("?", "?")


def run_in_thread(fn, stack_frames=1000):
    """Run fn() in a thread of its own (joined at once: still one thing happens at a time), with the same simulated stack
    below it as a call from the main thread would have; its result or exception comes back to the caller."""
    import threading
    box = {}
    saved = sys.getrecursionlimit()

    def body():
        depth = 0
        f = sys._getframe()
        while f is not None:
            depth += 1
            f = f.f_back
        sys.setrecursionlimit(depth + stack_frames)
        try:
            box["value"] = fn()
        except BaseException as exc:  # noqa - carried over to the caller
            box["exc"] = exc

    t = threading.Thread(target=body, name="mpsim-client")
    t.start()
    t.join()
    sys.setrecursionlimit(saved)
    if "exc" in box:
        raise box["exc"]
    return box.get("value")


def run_concurrently(fns, switches, roots, stack_frames=1000, log=None):
    """Several client threads on one program, under a scheduler the scenario decides.

    Each callable gets a real thread, but only one of them runs at any time: a thread keeps the baton until the global
    count of line events in the code under test (files under `roots`, seen through sys.settrace) reaches one of
    `switches`; then the next live thread continues from where it was parked.  Which thread runs when is therefore a
    function of the scenario alone.  Returns [("ok", value) | ("raise", exc)] per callable.  A thread that blocks for good
    inside the code under test (a lock held by a parked thread) stops the run: the per-run wall cap reports it.
    """
    import threading
    n = len(fns)
    batons = [threading.Event() for _ in fns]
    done = [False] * n
    results = [None] * n
    state = {"step": 0}
    sw = set(int(x) for x in switches)
    finished = threading.Event()
    saved = sys.getrecursionlimit()
    roots = tuple(roots)

    def next_live(i):
        for k in range(1, n + 1):
            j = (i + k) % n
            if not done[j]:
                return j
        return None

    def point(i):
        state["step"] += 1
        if state["step"] in sw:
            j = next_live(i)
            if j is not None and j != i:
                if log is not None:
                    log.emit("switch", at=state["step"], frm=i, to=j)
                batons[i].clear()
                batons[j].set()
                batons[i].wait()

    def make_trace(i):
        def tracer(frame, event, arg):
            if not frame.f_code.co_filename.startswith(roots):
                return None
            if event == "line":
                point(i)
            return tracer
        return tracer

    def body(i):
        batons[i].wait()
        depth = 0
        f = sys._getframe()
        while f is not None:
            depth += 1
            f = f.f_back
        sys.setrecursionlimit(depth + stack_frames)
        sys.settrace(make_trace(i))
        try:
            results[i] = ("ok", fns[i]())
        except BaseException as exc:  # noqa - handed to the caller
            results[i] = ("raise", exc)
        finally:
            sys.settrace(None)
            done[i] = True
            j = next_live(i)
            if log is not None:
                log.emit("client-done", client=i, outcome=results[i][0] if results[i] else "?")
            if j is None:
                finished.set()
            else:
                batons[j].set()

    threads = [threading.Thread(target=body, args=(i,), name="mpsim-client-%d" % i, daemon=True) for i in range(n)]
    for t in threads:
        t.start()
    batons[0].set()
    finished.wait()
    for t in threads:
        t.join()
    sys.setrecursionlimit(saved)
    return results
