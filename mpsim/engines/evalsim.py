"""evalsim - mpilot's lazy pull-based evaluator under a seeded scheduler (C01, C14).

Real code: Program (from_source / add_command / run), Command.run/result/metadata,
params cleaning, parser, loader.  Stub: the execute bodies of the probe commands
(/verif/mpsim/simlib/mpsim_probe.py), which ask the simulator for their pull plan.
"""
from __future__ import annotations

import copy
from fractions import Fraction

from ..core import EventLog, RunResult, SimAbort, h64
from ..render import render, random_layout, PLAIN
from ..seams import ExecMonitor, Hygiene, exc_chain, run_in_thread, run_concurrently

ENGINE = "evalsim"
SLOTS = ("A", "B", "L", "N", "NN")
LIBS = ("mpsim_probe",)

# Two client threads on one program (seams.run_concurrently) are beyond the quantifier of C14 (it ranges over programs, one
# client): mpilot promises no thread safety and C01 does not hold under it even on the unchanged tree.  The flavour exists
# for exploration (MPSIM_CONCURRENT=1) and is off in every registered command, so that a change which only alters
# behaviour under concurrent use can never raise an alarm.
import os as _os
CONCURRENT_CLIENTS = _os.environ.get("MPSIM_CONCURRENT") == "1"

BUDGET = {
    "C01": {"quick": 24000, "thorough": 1200000},
    "C14": {"quick": 16000, "thorough": 500000},
}


# ------------------------------------------------------------------------------------------------
# scenario helpers
# ------------------------------------------------------------------------------------------------
def iter_refs(args):
    """Yield reference names of an args dict in the probe's canonical (flattened) order."""
    for slot in SLOTS:
        if slot in args:
            for r in _flat(args[slot]):
                yield r


def _flat(v):
    if isinstance(v, list):
        for x in v:
            for y in _flat(x):
                yield y
    else:
        yield v


def _filter_value(v, keep, counter, mapping):
    if isinstance(v, list):
        out = []
        for x in v:
            if isinstance(x, list):
                out.append(_filter_value(x, keep, counter, mapping))
            else:
                old = counter[0]
                counter[0] += 1
                if keep(old, x):
                    mapping[old] = counter[1]
                    counter[1] += 1
                    out.append(x)
        return out
    old = counter[0]
    counter[0] += 1
    if keep(old, v):
        mapping[old] = counter[1]
        counter[1] += 1
        return v
    return None


def filter_refs(node, keep):
    """Drop references for which keep(ordinal, name) is false; rewrite the pull plan to match."""
    counter = [0, 0]
    mapping = {}
    new_args = {}
    for slot in SLOTS:
        if slot in node["args"]:
            v = _filter_value(node["args"][slot], keep, counter, mapping)
            if v is None:
                continue
            new_args[slot] = v
    node["args"] = new_args
    plan = [mapping[o] for o in node.get("plan", []) if o in mapping]
    if not node.get("exact"):
        present = set(plan)
        for o in range(counter[1]):
            if o not in present:
                plan.append(o)
    node["plan"] = plan
    if not any(True for _ in iter_refs(new_args)) and node["cls"] in ("ProbeOp", "ProbeOpU", "ProbeOpNoOut"):
        pass  # an operator without references is still a valid (source-like) command
    return node


def normalize(sc):
    names = {n["name"] for n in sc["nodes"]}
    for n in sc["nodes"]:
        if n["cls"] in ("ProbeSrc", "ProbeSrcNoOut", "ProbeSrcNone"):
            n["args"] = {}
            n["plan"] = []
        else:
            filter_refs(n, lambda o, name: name in names)
    sc["ops"] = [op for op in sc["ops"] if len(op) == 1 or op[1] in names]
    if not sc["ops"]:
        sc["ops"] = [["RUN"]]
    sc["faults"] = [f for f in sc.get("faults", []) if f["cmd"] in names]
    sc["src_count"] = min(sc.get("src_count", len(sc["nodes"])), len(sc["nodes"]))
    consumed = {r for n in sc["nodes"] if not n.get("ext") for r in iter_refs(n["args"])}
    for n in sc["nodes"]:
        if n.get("ext") and (n["cls"] not in ("ProbeSrc", "ProbeSrcNoOut", "ProbeSrcNone") or n["name"] not in consumed):
            n.pop("ext")          # only a stand-alone input that some command of the program references
            n.pop("rname", None)
        if n.get("ext"):
            n.pop("meta", None)
    if any(n.get("ext") for n in sc["nodes"]) or any(not _identifier(n["name"]) for n in sc["nodes"]):
        sc["src_count"] = 0       # object references and free-form result names exist in the API only
        sc["template_twice"] = False
    if sc.get("late"):
        sc["late"] = [x for x in sc["late"] if x in names]
        if not sc["late"] or len(sc["late"]) == len(sc["nodes"]):
            sc.pop("late")
    return sc


def _key_of(inst):
    k = getattr(inst, "sim_key", None)
    return k if k is not None else getattr(inst, "result_name", "?")


def _identifier(name):
    return bool(name) and name.isascii() and name.replace("_", "a").isalnum() and not name[0].isdigit()


def deps_of(sc):
    return {n["name"]: list(dict.fromkeys(iter_refs(n["args"]))) for n in sc["nodes"]}


def pulled_deps_of(sc):
    """Dependencies a command actually reads (a plug-in may ignore a referenced input on some path)."""
    out = {}
    for n in sc["nodes"]:
        refs = list(iter_refs(n["args"]))
        if n.get("exact"):
            out[n["name"]] = list(dict.fromkeys(refs[i] for i in n["plan"] if i < len(refs)))
        else:
            out[n["name"]] = list(dict.fromkeys(refs))
    return out


def closure(deps, start):
    seen, todo = set(), [start]
    while todo:
        x = todo.pop()
        if x in seen:
            continue
        seen.add(x)
        todo.extend(deps.get(x, ()))
    return seen


def graph_key(sc):
    """Canonical description of the dependency structure (textual order + edges by position)."""
    pos = {n["name"]: i for i, n in enumerate(sc["nodes"])}
    return [[n["cls"], {k: _map_names(v, pos) for k, v in n["args"].items()}] for n in sc["nodes"]]


def _map_names(v, pos):
    if isinstance(v, list):
        return [_map_names(x, pos) for x in v]
    return pos.get(v, -1)


# ------------------------------------------------------------------------------------------------
# generation
# ------------------------------------------------------------------------------------------------
FAMILIES = ("chain", "diamond", "fanin", "fanout", "layered", "forest", "disconnected",
            "listonly", "duplicate", "random", "random", "tiny")


def _gen_dag(rng, family, n):
    """Return refs[i] = list of earlier node indices (duplicates allowed) in topological numbering."""
    refs = [[] for _ in range(n)]
    if family == "chain":
        for i in range(1, n):
            refs[i] = [i - 1]
    elif family == "diamond":
        width = rng.randint(2, 3)
        layers = [[0]]
        i = 1
        while i < n:
            w = min(width, n - i) if len(layers) % 2 else 1
            layers.append(list(range(i, i + w)))
            i += w
        for li in range(1, len(layers)):
            for x in layers[li]:
                prev = layers[li - 1]
                refs[x] = list(prev) if len(layers[li]) == 1 else [rng.choice(prev)]
    elif family == "fanin":
        if n >= 2:
            refs[n - 1] = list(range(n - 1))
            for i in range(1, n - 1):
                if rng.random() < 0.2:
                    refs[i] = [rng.randrange(i)]
    elif family == "fanout":
        for i in range(1, n):
            refs[i] = [0]
        if n >= 4 and rng.random() < 0.5:
            refs[n - 1] = list(range(1, n - 1))
    elif family == "layered":
        nl = rng.randint(2, max(2, min(5, n)))
        layer = sorted(rng.randrange(nl) for _ in range(n))
        for i in range(n):
            cands = [j for j in range(i) if layer[j] < layer[i]]
            if cands:
                k = rng.randint(1, min(3, len(cands)))
                refs[i] = rng.sample(cands, k)
    elif family == "forest":
        leaves = max(1, n // 3)
        for i in range(leaves, n):
            k = rng.randint(1, min(3, i))
            pool = list(range(leaves)) if rng.random() < 0.6 else list(range(i))
            refs[i] = [rng.choice(pool) for _ in range(k)]
    elif family == "disconnected":
        cut = rng.randint(1, max(1, n - 1))
        for i in range(1, n):
            lo = 0 if i < cut else cut
            if i > lo and rng.random() < 0.7:
                refs[i] = [rng.randrange(lo, i)]
    elif family in ("listonly", "random", "tiny"):
        for i in range(1, n):
            if rng.random() < 0.8:
                k = rng.randint(1, min(4, i))
                refs[i] = [rng.randrange(i) for _ in range(k)]
    elif family == "duplicate":
        for i in range(1, n):
            d = rng.randrange(i)
            refs[i] = [d, d, d] if rng.random() < 0.6 else [d, rng.randrange(i)]
    return refs


def _place(rng, targets, family):
    """Distribute reference names over the slots A, B, L, N, NN."""
    args = {}
    direct_ok = family != "listonly"
    for t in targets:
        choices = []
        if direct_ok and "A" not in args:
            choices += ["A", "A"]
        if direct_ok and "B" not in args:
            choices += ["B"]
        choices += ["L", "L", "N", "NN"] if family != "chain" else ["L"]
        if family == "duplicate" and "A" in args:
            choices = ["L", "L", "N"]
        slot = rng.choice(choices)
        if slot in ("A", "B"):
            args[slot] = t
        elif slot == "L":
            args.setdefault("L", []).append(t)
        elif slot == "N":
            n = args.setdefault("N", [])
            if not n or rng.random() < 0.4:
                n.append([])
            rng.choice(n).append(t)
        else:
            nn = args.setdefault("NN", [])
            if not nn or rng.random() < 0.3:
                nn.append([[]])
            mid = rng.choice(nn)
            if not mid or rng.random() < 0.3:
                mid.append([])
            rng.choice(mid).append(t)
    if "N" in args and rng.random() < 0.1:
        args["N"].append([])
    return {s: args[s] for s in SLOTS if s in args}


def _plan(rng, nrefs):
    plan = list(range(nrefs))
    rng.shuffle(plan)
    if nrefs and rng.random() < 0.35:
        for _ in range(rng.randint(1, 3)):
            plan.insert(rng.randrange(len(plan) + 1), rng.randrange(nrefs))
    return plan


def _op_cls(rng):
    r = rng.random()
    return "ProbeOp" if r < 0.6 else ("ProbeOpU" if r < 0.85 else "ProbeOpNoOut")


def _gen_nodes(rng, family, n):
    refs = _gen_dag(rng, family, n)
    names = ["R%d" % i for i in range(n)]
    if rng.random() < 0.15:
        rng.shuffle(names)  # names carry no positional information
    if n >= 2 and rng.random() < 0.15:
        # result names that differ only in case are different results
        a, b = rng.sample(range(n), 2)
        names[a], names[b] = "slope", "Slope"
        if n >= 3 and rng.random() < 0.5:
            c = rng.choice([i for i in range(n) if i not in (a, b)])
            names[c] = "SLOPE"
    nodes = []
    for i in range(n):
        if not refs[i] and rng.random() < 0.8:
            cls = "ProbeSrc" if rng.random() < 0.85 else "ProbeSrcNoOut"
            node = {"name": names[i], "cls": cls, "args": {}, "plan": []}
        else:
            cls = _op_cls(rng)
            args = _place(rng, [names[j] for j in refs[i]], family)
            node = {"name": names[i], "cls": cls, "args": args, "plan": []}
            nrefs = sum(1 for _ in iter_refs(args))
            node["plan"] = _plan(rng, nrefs)
            if nrefs and rng.random() < 0.12:
                # a consumer that does not read some (or any) of the inputs it references, e.g. a fallback input
                node["exact"] = True
                node["plan"] = [o for o in node["plan"] if rng.random() < 0.5]
        if rng.random() < 0.12:
            node["meta"] = {"DisplayName": "n %d" % i, "K": "v"}
        nodes.append(node)
    if rng.random() < 0.12:
        # side-effect-only plug-ins (result None): all references in such a program are untyped
        for nd in nodes:
            if nd["cls"] in ("ProbeSrc", "ProbeSrcNoOut"):
                nd["cls"] = "ProbeSrcNone" if rng.random() < 0.5 else "ProbeSrcNoOut"
            else:
                nd["cls"] = "ProbeOpNone" if rng.random() < 0.5 else "ProbeOpU"
    return nodes


def _gen_ops(rng, names, tier):
    kmax = 8
    k = rng.choice([1, 1, 2, 3, 4, rng.randint(1, kmax)])
    style = rng.random()
    ops = []
    if style < 0.35:
        ops.append(["RUN"])
    elif style < 0.55:
        # partial pull-evaluation before the first RUN
        for _ in range(rng.randint(1, 3)):
            ops.append([rng.choice(["GET", "GET", "CRUN"]), rng.choice(names)])
        ops.append(["RUN"])
    elif style < 0.65:
        # never call RUN: pull everything in random order
        order = list(names)
        rng.shuffle(order)
        ops = [["GET", x] for x in order]
    while len(ops) < k:
        r = rng.random()
        if r < 0.35:
            ops.append(["RUN"])
        elif r < 0.65:
            ops.append(["GET", rng.choice(names)])
        elif r < 0.85:
            ops.append(["CRUN", rng.choice(names)])
        else:
            ops.append(["META", rng.choice(names)])
    return ops


def generate(prop, rng, index, tier):
    if prop == "C14":
        return _generate_cyclic(rng, index, tier)
    if index % 8 == 7:
        return _generate_eems(rng, index, tier)
    nmax = 12 if tier == "quick" else 40
    family = FAMILIES[index % len(FAMILIES)] if rng.random() < 0.7 else rng.choice(FAMILIES)
    if family == "tiny":
        n = rng.randint(1, 3)
    else:
        n = rng.choice([rng.randint(1, 6), rng.randint(2, nmax), rng.randint(2, min(nmax, 12))])
    nodes = _gen_nodes(rng, family, n)
    order = list(range(n))
    r = rng.random()
    if r < 0.25:
        pass                      # topological order
    elif r < 0.45:
        order.reverse()           # every reference is a forward reference
    else:
        rng.shuffle(order)
    nodes = [nodes[i] for i in order]
    names = [nd["name"] for nd in nodes]
    route = rng.choice(["source", "source", "api", "mixed"])
    src_count = n if route == "source" else (0 if route == "api" else rng.randint(0, n))
    sc = {
        "engine": ENGINE, "prop": "C01", "family": family,
        "config": "faults" if index % 4 == 3 else "clean",
        "nodes": nodes, "src_count": src_count,
        "api_objects": rng.random() < 0.5,
        "template_twice": rng.random() < 0.3,
        "layout": random_layout(rng, wild=rng.random() < 0.5),
        "ops": _gen_ops(rng, names, tier),
        "faults": [],
        "knobs": {"reclimit": rng.choice([1000, 3000, 10000])},
    }
    sc["layout"]["eol"] = "\n"  # line endings are C11's business
    sc["knobs"]["thread"] = rng.random() < 0.15      # the client drives the program from a thread of its own
    sc["knobs"]["debug_log"] = rng.random() < 0.1    # the embedding application logs at DEBUG level
    if route == "api" and rng.random() < 0.6:
        _api_only(rng, sc)
    if sc["config"] == "faults":
        opsn = [nd for nd in nodes]
        for _ in range(rng.choice([1, 1, 2])):
            nd = rng.choice(opsn)
            sc["faults"].append({
                "cmd": nd["name"], "at": rng.randint(0, len(nd["plan"])),
                "exc": rng.choice(["RuntimeError", "OSError", "ProgramError", "MemoryError"]),
                "times": rng.choice([1, 1, 2]),
            })
        # make sure something happens after the fault has been consumed
        sc["ops"] = [["RUN"]] + sc["ops"] + [["RUN"], ["RUN"]]
    return normalize(sc)


ODD_SUFFIX = (" ", "\t", "\n", "\u00a0", ".", "-1")


def _rename(sc, old, new):
    def sub(v):
        if isinstance(v, list):
            return [sub(x) for x in v]
        return new if v == old else v
    for nd in sc["nodes"]:
        if nd["name"] == old:
            nd["name"] = new
        nd["args"] = {k: sub(v) for k, v in nd["args"].items()}
    for op in sc["ops"]:
        if len(op) > 1 and op[1] == old:
            op[1] = new


def _api_only(rng, sc):
    """What only a program built through the API can contain: free-form result names, and references given as command
    objects that are not commands of the program (stand-alone inputs), possibly under a name the program also uses."""
    nodes = sc["nodes"]
    names = [nd["name"] for nd in nodes]
    if rng.random() < 0.5 and len(nodes) >= 2:
        a, b = rng.sample(range(len(nodes)), 2)
        base = names[a]
        new = rng.choice([base + rng.choice(ODD_SUFFIX), " " + base, base + "  ", "", "R 1", "1", "a=b", "R\u00e9"])
        if new not in names:
            _rename(sc, names[b], new)
    if rng.random() < 0.6:
        names = [nd["name"] for nd in nodes]
        consumed = {r for nd in nodes for r in iter_refs(nd["args"])}
        srcs = [nd for nd in nodes if nd["cls"] in ("ProbeSrc", "ProbeSrcNoOut", "ProbeSrcNone") and nd["name"] in consumed]
        rng.shuffle(srcs)
        for nd in srcs[:rng.choice([1, 1, 2])]:
            nd["ext"] = True
            others = [x for x in names if x != nd["name"] and not any(m.get("ext") and m["name"] == x for m in nodes)]
            nd["rname"] = rng.choice(others) if others and rng.random() < 0.6 else nd["name"]


def _generate_cyclic_eems(rng, index, tier):
    """Cyclic models over real EEMS commands (which evaluate every input, also those with weight 0)."""
    from .. import modelgen
    from ..refmodel import eems as ref
    from ..refmodel.declarations import table as decl_table
    decl = decl_table("csv")
    for _ in range(50):
        model = modelgen.gen_model(rng, tier, ints=False, missing=False, ncmds=rng.randint(3, 7))
        cmds = model["cmds"]
        env = ref.run_model(model["table"], cmds)
        if rng.random() < 0.3:
            # a cycle that runs through PrintVars commands (their references are untyped)
            k = rng.choice([1, 2, 3])
            names = ["pv%d" % i for i in range(k)]
            data = [c["name"] for c in cmds]
            for i, nm in enumerate(names):
                refs = [names[(i + 1) % k]] + ([rng.choice(data)] if rng.random() < 0.5 else [])
                rng.shuffle(refs)
                args = {"InFieldNames": refs}
                if rng.random() < 0.5:
                    args["OutFileName"] = "pv%d.txt" % i
                cmds.append({"name": nm, "cmd": "PrintVars", "args": args})
            if rng.random() < 0.4:
                cmds.append({"name": "pvtail", "cmd": "PrintVars", "args": {"InFieldNames": [names[0]]}})
            order = list(range(len(cmds)))
            rng.shuffle(order)
            return {"engine": ENGINE, "prop": "C14", "family": "cyclic-eems-printvars", "config": "cyclic-eems",
                    "model": model, "order": order, "nodes": [], "ops": [["RUN"]], "faults": [],
                    "back_edge": [names[0], "InFieldNames", names[-1]]}
        byname = {c["name"]: c for c in cmds}
        desc = {c["name"]: set() for c in cmds}          # descendants (consumers, transitively)
        for c in cmds:
            for r in ref.refs_of(c):
                pass
        deps = {c["name"]: set(ref.refs_of(c)) for c in cmds}
        anc = {}
        for c in cmds:                                    # cmds are in topological order
            a = set()
            for r in deps[c["name"]]:
                a.add(r)
                a |= anc.get(r, set())
            anc[c["name"]] = a
        cands = []
        for x in cmds:
            if x["cmd"] == "EEMSRead":
                continue
            for pname in ("InFieldName", "InFieldNames", "A", "B"):
                if pname not in x["args"]:
                    continue
                need = decl[x["cmd"]]["params"][pname]["fz"]
                # y: x itself or something that (transitively) consumes x, of the fuzziness the parameter wants
                for y in cmds:
                    if y["name"] == x["name"] or x["name"] in anc[y["name"]]:
                        fy = env[y["name"]].fuzzy
                        if need is None or need == fy:
                            cands.append((x["name"], pname, y["name"]))
        if not cands:
            continue
        xname, pname, yname = rng.choice(cands)
        x = byname[xname]
        v = x["args"][pname]
        if isinstance(v, list):
            pos = rng.randrange(len(v))
            v[pos] = yname
            if "Weights" in x["args"] and len(x["args"]["Weights"]) == len(v) and len(v) >= 2 and rng.random() < 0.6:
                x["args"]["Weights"][pos] = 0              # a zero weight does not take the reference out of the graph
                if sum(Fraction(str(w)) for w in x["args"]["Weights"]) == 0:
                    x["args"]["Weights"][(pos + 1) % len(v)] = 1
        else:
            x["args"][pname] = yname
        v2 = []
        r = rng.random()
        if r < 0.3:
            # some commands (the one that closes the cycle among them, if it has a 2.0 name) are written in the EEMS 2.0
            # dialect; such a file cannot carry OutFileName arguments, so it gets no sinks
            from ..refmodel.declarations import V2_NAMES
            if rng.random() < 0.4:
                cmds.append({"name": "cp", "cmd": "Copy", "args": {"InFieldName": "cp"}})     # a field copied onto itself
                v2.append("cp")
            v2 += [c["name"] for c in cmds if c["cmd"] in V2_NAMES and c["name"] not in v2 and
                   (c["name"] == xname or rng.random() < 0.4)]
        elif r < 0.65:
            # output commands that do not depend on the cycle (the reads are upstream of it)
            reads = [c["name"] for c in cmds if c["cmd"] == "EEMSRead"]
            if rng.random() < 0.6:
                cmds.append({"name": "wsink", "cmd": "EEMSWrite",
                             "args": {"OutFileName": "out.csv", "OutFieldNames": rng.sample(reads, rng.randint(1, len(reads)))}})
            if rng.random() < 0.6:
                args = {"InFieldNames": rng.sample(reads, rng.randint(1, len(reads)))}
                if rng.random() < 0.5:
                    args["OutFileName"] = "print.txt"
                cmds.append({"name": "psink", "cmd": "PrintVars", "args": args})
        order = list(range(len(cmds)))
        rng.shuffle(order)
        return {"engine": ENGINE, "prop": "C14", "family": "cyclic-eems", "config": "cyclic-eems", "model": model,
                "order": order, "nodes": [], "ops": [["RUN"]], "faults": [], "back_edge": [xname, pname, yname], "v2": v2}
    return None


def _execute_cyclic_eems(sc):
    from mpilot.program import Program
    from mpilot.exceptions import RecursiveModelStructure
    from .. import modelgen
    from ..render import render as rend
    from ..simfs import SimFS
    from ..seams import StdCapture
    from . import modelsim

    res = RunResult()
    model = sc["model"]
    cmds = model["cmds"]
    n = len(cmds)
    log = EventLog(cap=200 * (n + 8) + 1000)
    res.log = log
    log.emit("scenario", prop="C14", config="cyclic-eems", n=n, back_edge=sc.get("back_edge"))
    nodes = modelsim.program_nodes(cmds, sc.get("order"), 0, tuple(sc.get("v2") or ()))
    text, _ = rend(nodes, PLAIN)
    if sc.get("v2"):
        res.probe("cyclic model with commands in the EEMS 2.0 dialect")
    if any(c["name"] in ("wsink", "psink") for c in cmds):
        res.probe("cyclic model with output commands that do not depend on the cycle")
    fs = SimFS(log, res, files={model["table"]["path"]: modelgen.csv_text(model["table"])}, dirs=[modelgen.WORK])

    def runaway(key, depth):
        res.violate("C14.nesting", "C14.nesting unbounded", "execute nesting reached %d in %d commands" % (depth, n))

    mon = ExecMonitor(log, nesting_cap=n + 3, on_runaway=runaway)
    fake = {"nodes": [{"name": c["name"]} for c in cmds]}
    with Hygiene(), fs, StdCapture(log):
        outcome, exc = "ok", None
        try:
            program = Program.from_source(text, working_dir=model.get("working_dir", modelgen.WORK))
            mon.install(list(program.command_library.values()))
            program.run()
        except SimAbort:
            outcome = "abort"
        except Exception as e:  # noqa
            outcome, exc = "raise", e
        finally:
            mon.uninstall()
    log.emit("outcome", outcome=outcome, exc=type(exc).__name__ if exc else None)
    _judge_cyclic(fake, res, mon, outcome, exc, RecursiveModelStructure)
    res.probe("cyclic model over real EEMS commands")
    x = next((c for c in cmds if c["name"] == sc.get("back_edge", [None])[0]), None)
    if x is not None and 0 in [w for w in x["args"].get("Weights", [])]:
        res.probe("cycle closed through a zero-weight list entry")
    res.case_key = h64([cmds, sc.get("order")])
    res.schedule_key = h64(["eems", [ev[1]["cmd"] for ev in log.events if ev[0] == "exec-enter"]])
    res.nontrivial = True
    return res


def _generate_cyclic(rng, index, tier):
    if index % 6 == 5:
        sc = _generate_cyclic_eems(rng, index, tier)
        if sc is not None:
            return sc
    kind = rng.choice(["self", "two", "k", "multi", "tail_in", "tail_out", "separate", "random"])
    ncyc = {"self": 1, "two": 2}.get(kind, rng.randint(2, 5))
    extra = 0 if kind in ("self", "two", "k") and rng.random() < 0.6 else rng.randint(0, 4)
    n = ncyc + extra
    names = ["R%d" % i for i in range(n)]
    refs = [[] for _ in range(n)]
    cyc = list(range(ncyc))
    for i in cyc:                                   # the cycle 0 -> 1 -> ... -> 0 (i references i+1)
        refs[i].append(cyc[(i + 1) % ncyc])
    rest = list(range(ncyc, n))
    if kind == "multi" and ncyc >= 3:
        a, b = rng.sample(cyc, 2)
        refs[a].append(b)
        refs[b].append(a)
    for x in rest:
        mode = kind if kind in ("tail_in", "tail_out", "separate") else rng.choice(
            ["tail_in", "tail_out", "separate"])
        if mode == "tail_in":        # x consumes something of the cycle (a leaf leading in)
            refs[x].append(rng.choice(cyc + [y for y in rest if y < x]))
        elif mode == "tail_out":     # a cycle member consumes x (acyclic producer)
            refs[rng.choice(cyc)].append(x)
            if rng.random() < 0.3 and [y for y in rest if y < x]:
                refs[x].append(rng.choice([y for y in rest if y < x]))
        else:                        # separate acyclic component
            prev = [y for y in rest if y < x]
            if prev and rng.random() < 0.6:
                refs[x].append(rng.choice(prev))
    if kind == "random":
        for _ in range(rng.randint(0, 3)):
            a, b = rng.randrange(n), rng.randrange(n)
            refs[a].append(b)
    nodes = []
    for i in range(n):
        fam = rng.choice(["random", "listonly", "random", "chain"])
        if refs[i]:
            args = _place(rng, [names[j] for j in refs[i]], fam)
            nd = {"name": names[i], "cls": _op_cls(rng),
                  "args": args, "plan": _plan(rng, sum(1 for _ in iter_refs(args)))}
            if rng.random() < 0.12:
                # a command that does not read some (or any) of the results it references: the references are there all
                # the same, and so is the cycle
                nd["exact"] = True
                nd["plan"] = [o for o in nd["plan"] if rng.random() < 0.5]
        else:
            nd = {"name": names[i], "cls": "ProbeSrc", "args": {}, "plan": []}
        nodes.append(nd)
    order = list(range(n))
    rng.shuffle(order)
    nodes = [nodes[i] for i in order]
    route = rng.choice(["source", "source", "api", "mixed"])
    sc = {
        "engine": ENGINE, "prop": "C14", "family": "cyclic-" + kind, "config": "cyclic",
        "nodes": nodes, "src_count": n if route == "source" else (0 if route == "api" else rng.randint(0, n)),
        "api_objects": False,
        "layout": random_layout(rng, wild=rng.random() < 0.3),
        "ops": [["RUN"]] if rng.random() < 0.7 else [["RUN"], ["RUN"]], "faults": [],
        "knobs": {"reclimit": rng.choice([400, 1000, 3000]), "thread": rng.random() < 0.2,
                  "debug_log": rng.random() < 0.15},
    }
    sc["layout"]["eol"] = "\n"
    sc = normalize(sc)
    if rng.random() < 0.25:
        # history: the acyclic part is built and run first; the commands that close the cycle are added to the same
        # program afterwards (API), and the program is run again
        deps = deps_of(sc)
        on_cycle = set()
        for x in deps:
            if any(x in closure(deps, d) for d in deps[x]):
                on_cycle.add(x)
        late = set(on_cycle)
        changed = True
        while changed:
            changed = False
            for x, ds in deps.items():
                if x not in late and any(d in late for d in ds):
                    late.add(x)
                    changed = True
        early = [nd["name"] for nd in sc["nodes"] if nd["name"] not in late]
        if early and late:
            sc["late"] = [nd["name"] for nd in sc["nodes"] if nd["name"] in late]
            sc["ops"] = [["RUN"]]
    elif rng.random() < 0.15:
        # history: the program first holds a plain source in the place of one command and runs; that command is then
        # replaced (deleted and added again, the documented way to change a model) by the one that closes the cycle
        deps = deps_of(sc)
        cands = []
        for nd in sc["nodes"]:
            if not deps[nd["name"]]:
                continue
            cut = dict(deps, **{nd["name"]: []})
            if not any(x in closure(cut, d) for x in cut for d in cut[x]):
                cands.append(nd["name"])
        if cands:
            sc["replace"] = rng.choice(sorted(cands))
            sc["ops"] = [["RUN"]]
            sc["src_count"] = 0
    elif CONCURRENT_CLIENTS and rng.random() < 0.2:
        # two clients on the same program at once (a second thread reads a result of the cycle, or runs the program too);
        # the scenario says after how many lines of the code under test the other client continues
        deps = deps_of(sc)
        on_cycle = [x for x in deps if any(x in closure(deps, d) for d in deps[x])]
        if on_cycle:
            sc["concurrent"] = {"op2": ["RUN"] if rng.random() < 0.4 else ["GET", rng.choice(sorted(on_cycle))],
                                "switch": sorted(rng.sample(range(1, 260), rng.randint(1, 5)))}
            sc["ops"] = [["RUN"]]
            sc["knobs"]["thread"] = False
    return sc


def _generate_eems(rng, index, tier):
    """Second flavour: real EEMS commands (pull order fixed by the library code) on SimFS data."""
    from .. import modelgen
    from . import modelsim
    from ..refmodel import eems as ref
    model = modelgen.gen_model(rng, tier, ints=False, missing=rng.random() < 0.3)
    modelgen.add_sinks(rng, model, write=rng.random() < 0.5, printvars=rng.random() < 0.5, print_to_file=True)
    env = ref.run_model(model["table"], model["cmds"])
    sched = modelsim._gen_schedule(rng, model, env, rng.choice(["topo", "reverse", "random", "random"]), allow_v2=False)
    sched["extras"] = []
    sched["order"] = [i for i in sched["order"] if i < len(model["cmds"])]
    names = [c["name"] for c in model["cmds"]]
    hist = []
    for _ in range(rng.randint(1, 6)):
        r = rng.random()
        hist.append(["RUN"] if r < 0.4 else ["GET", rng.choice(names)] if r < 0.7 else
                    ["CRUN", rng.choice(names)] if r < 0.88 else ["TOUCH"])   # TOUCH: the environment rewrites the data file
    if not any(op[0] == "RUN" for op in hist):
        hist.insert(rng.randrange(len(hist) + 1), ["RUN"])
    if rng.random() < 0.25:
        # the data file is not there yet when the client starts: operations fail until the environment delivers it, and
        # the same program must then run as if nothing had happened
        hist = [op for op in hist if op[0] != "TOUCH"]
        hist.insert(rng.randint(1, len(hist)) if len(hist) > 1 and rng.random() < 0.8 else len(hist), ["ARRIVE"])
        hist.append(["RUN"])
        if rng.random() < 0.5:
            hist.append(rng.choice([["RUN"], ["GET", rng.choice(names)]]))
    sched["history"] = hist
    sched["layout"]["eol"] = "\n"
    return {"engine": ENGINE, "prop": "C01", "config": "eems", "family": "eems-model", "model": model, "sched": sched,
            "nodes": [], "ops": hist, "faults": []}


def _execute_eems(sc):
    """Exactly-once / nothing-after-completion invariants on real EEMS commands."""
    from mpilot.program import Program
    from .. import modelgen
    from ..render import render as rend
    from ..simfs import SimFS
    from ..seams import StdCapture
    from ..refmodel import eems as ref
    from . import modelsim

    res = RunResult()
    model, sched = sc["model"], sc["sched"]
    cmds = model["cmds"]
    log = EventLog(cap=400 * (len(cmds) + 8) + 1000)
    res.log = log
    log.emit("scenario", prop="C01", config="eems", n=len(cmds))
    try:
        ref.run_model(model["table"], cmds)
    except (ref.Precondition, KeyError):
        res.observe("scenario outside the documented domain")
        return res
    nodes = modelsim.program_nodes(cmds, sched.get("order"), sched.get("argseed", 0), (), sched.get("meta"))
    text, _ = rend(nodes, sched.get("layout") or PLAIN)
    late = any(op[0] == "ARRIVE" for op in sc["ops"])
    fs = SimFS(log, res, files={} if late else {model["table"]["path"]: modelgen.csv_text(model["table"])},
               dirs=[modelgen.WORK])
    deps = {c["name"]: list(dict.fromkeys(ref.refs_of(c))) for c in cmds}
    names = [c["name"] for c in cmds]
    reported = set()

    def on_enter(inst, key):
        # (an attempt that failed because the data file was not there yet may be repeated once it is)
        if (mon.returned.get(key, 0) >= 1 or (not late and mon.counts[key] > 1)) and key not in reported:
            reported.add(key)
            res.violate("C01.I1", "C01.I1 executed-more-than-once",
                        "%s (%s) entered %d times" % (key, type(inst).__name__, mon.counts[key]))

    mon = ExecMonitor(log, on_enter=on_enter, nesting_cap=len(cmds) + 3)
    with Hygiene(), fs, StdCapture(log):
        try:
            program = Program.from_source(text, working_dir=model.get("working_dir", modelgen.WORK))
            mon.install(list(program.command_library.values()))
            complete = False
            arrived = not late
            for op in sc["ops"]:
                before = sum(mon.counts.values())
                log.emit("op-begin", op=op)
                try:
                    if op[0] == "RUN":
                        program.run()
                    elif op[0] == "GET":
                        program.commands[op[1]].result
                    elif op[0] == "CRUN":
                        program.commands[op[1]].run()
                except SimAbort:
                    raise
                except Exception as exc:  # noqa
                    if arrived:
                        if late:
                            res.violate("C01.raise", "C01.raise-after-repair %s" % type(exc).__name__,
                                        "%r raised %r although the data file had been delivered" % (op, exc))
                            break
                        raise
                    log.emit("op-end", op=op, exc=type(exc).__name__)
                    res.probe("operation failed while the data file was not there yet")
                    continue
                if op[0] == "ARRIVE":
                    path = model["table"]["path"]
                    fs.files[path] = modelgen.csv_text(model["table"]).encode("utf-8")
                    fs.touch(path)
                    arrived = True
                    log.emit("actor", do="deliver", path=path)
                    res.fired("actor-deliver-input")
                    log.emit("op-end", op=op, added=0)
                    continue
                if op[0] == "TOUCH":
                    path = model["table"]["path"]
                    fs.files[path] = fs.files[path] + b"\n"
                    fs.touch(path)
                    log.emit("actor", do="rewrite", path=path)
                    res.fired("actor-rewrite-input")
                added = sum(mon.counts.values()) - before
                log.emit("op-end", op=op, added=added)
                if complete and added:
                    res.violate("C01.I5", "C01.I5 executes-after-completion",
                                "%r executed %d commands after the program had completed" % (op, added))
                done = mon.returned if late else mon.counts
                if op[0] in ("GET", "CRUN"):
                    bad = sorted(x for x in closure(deps, op[1]) if done.get(x, 0) != 1)
                    if bad:
                        res.violate("C01.I4", "C01.I4 pull-left-dependencies-unexecuted",
                                    "after %r these commands had not executed exactly once: %r" % (op, bad))
                if op[0] == "RUN":
                    bad = sorted(x for x in names if done.get(x, 0) != 1)
                    if bad:
                        res.violate("C01.I4", "C01.I4 run-incomplete",
                                    "after run() these commands had not executed exactly once: %r" % (bad,))
                    complete = not bad
            res.probe("real EEMS commands flavour")
        except SimAbort:
            res.violate("C01.I1", "C01.runaway unbounded-nesting", "execute nesting exceeded the number of commands")
        except Exception as exc:  # noqa
            res.observe("model run raised %s (C02's business)" % type(exc).__name__)
        finally:
            mon.uninstall()
    order = [ev[1]["cmd"] for ev in log.events if ev[0] == "exec-enter"]
    res.schedule_key = h64(["eems", order])
    res.case_key = h64([cmds, sc["ops"], sched.get("order")])
    res.nontrivial = len(cmds) >= 2
    return res


def has_cycle(sc):
    deps = deps_of(sc)
    color = {}

    def visit(x):
        color[x] = 1
        for d in deps.get(x, ()):
            if d not in deps:
                continue
            c = color.get(d, 0)
            if c == 1 or (c == 0 and visit(d)):
                return True
        color[x] = 2
        return False

    return any(color.get(x, 0) == 0 and visit(x) for x in list(deps))


# ------------------------------------------------------------------------------------------------
# execution
# ------------------------------------------------------------------------------------------------
class _Ctx(object):
    """What the probe commands talk to (the simulator side of the seam)."""

    def __init__(self, sc, log, res):
        self.sc = sc
        self.log = log
        self.res = res
        self.plans = {n["name"]: n["plan"] for n in sc["nodes"]}
        self.exact = {n["name"] for n in sc["nodes"] if n.get("exact")}
        self.none_result = {n["name"] for n in sc["nodes"] if n["cls"] in ("ProbeSrcNone", "ProbeOpNone")}
        self.program = None
        self.ext = {}
        self.expect_args = {n["name"]: n["args"] for n in sc["nodes"]}
        self.faults = [dict(f) for f in sc.get("faults", [])]
        self.serial = 0
        self.monitor = None
        self.pulled_tokens = {}   # dep name -> token id first seen
        self.judge = sc["config"] != "cyclic"

    def cmd_of(self, key):
        if key in self.ext:
            return self.ext[key]
        return self.program.commands.get(key) if self.program is not None else None

    def next_serial(self):
        self.serial += 1
        return self.serial

    def pull_plan(self, name, nrefs):
        plan = [i for i in self.plans.get(name, []) if i < nrefs]
        if name not in self.exact:
            for i in range(nrefs):
                if i not in plan:
                    plan.append(i)
        return plan

    def received(self, inst, shape):
        key = _key_of(inst)
        want = self.expect_args.get(key)
        self.log.emit("args", cmd=key, shape=shape)
        if self.judge and want is not None and shape != want:
            self.res.violate("C01.I2", "C01.I2 wrong-references",
                             "command %s received references %r, the model says %r"
                             % (key, shape, want))

    def fault_point(self, name, step):
        for f in self.faults:
            if f["cmd"] == name and f["at"] == step and f["times"] > 0:
                f["times"] -= 1
                self.res.fired("execute-" + f["exc"])
                self.log.emit("fault", cmd=name, at=step, exc=f["exc"])
                raise _make_exc(f["exc"])

    def pulled(self, consumer, dep, tok, finished_before):
        mon = self.monitor
        dname = _key_of(dep)
        tid = self.log.token(tok)
        after = bool(getattr(dep, "is_finished", False))
        self.log.emit("pull", consumer=consumer.result_name, dep=dname, tok=tid,
                      before=finished_before, after=after)
        if finished_before:
            self.res.probe("pull of an already finished dependency")
        else:
            self.res.probe("pull that triggers the dependency's execution")
        if not self.judge:
            return
        owner = getattr(tok, "owner", None)
        if dname in self.none_result:
            if tok is not None:
                self.res.violate("C01.I2", "C01.I2 foreign-or-missing-result",
                                 "%s pulled %s (a command whose result is None) and got %r" % (consumer.result_name, dname, tok))
            self.res.probe("result None pulled (side-effect-only producer)")
        elif owner != dname:
            self.res.violate("C01.I2", "C01.I2 foreign-or-missing-result",
                             "%s pulled %s and got %r" % (consumer.result_name, dname, tok))
        if self.program is not None and self.cmd_of(dname) is not dep:
            self.res.violate("C01.I2", "C01.I2 command-of-another-program",
                             "%s was handed a command object %s that is not the one of its own program"
                             % (consumer.result_name, dname))
        if not after:
            self.res.violate("C01.I2", "C01.I2 unfinished-at-pull",
                             "%s pulled %s which is not finished at return" % (consumer.result_name, dname))
        if mon.returned.get(dname, 0) < 1:
            self.res.violate("C01.I2", "C01.I2 no-exec-exit-before-pull",
                             "%s got a result of %s before its execute returned" % (consumer.result_name, dname))
        first = self.pulled_tokens.setdefault(dname, tid)
        if first != tid and dname not in self.none_result:
            self.res.violate("C01.I3", "C01.I3 result-identity",
                             "two reads of %s returned different objects" % dname)


def _make_exc(name):
    if name == "ProgramError":
        from mpilot.exceptions import ProgramError
        return ProgramError(None, "injected")
    import builtins
    return getattr(builtins, name)("injected " + name)


def _build(sc, Program, probe):
    nodes = sc["nodes"]
    if sc.get("late"):
        nodes = [n for n in nodes if n["name"] not in sc["late"]]
    k = min(sc.get("src_count", len(nodes)), len(nodes))
    prog_nodes = []
    for n in nodes[:k]:
        args = [[s, n["args"][s]] for s in SLOTS if s in n["args"]]
        if n.get("meta"):
            args.append(["Metadata", dict(n["meta"])])
        prog_nodes.append({"result": n["name"], "cmd": n["cls"], "args": args})
    if prog_nodes:
        text, _ = render(prog_nodes, sc.get("layout") or PLAIN)
        program = Program.from_source(text, libraries=LIBS)
    else:
        text = ""
        program = Program(libraries=LIBS)
    template = sc.get("template_twice") and k == 0 and not sc.get("api_objects")
    first = Program(libraries=LIBS) if template else None
    ext = {}
    for n in nodes[k:]:
        if n.get("ext"):
            # a stand-alone input: a command object of its own, not registered in the program, referenced by object
            obj = getattr(probe, n["cls"])(n.get("rname", n["name"]), [], program=program)
            obj.sim_key = n["name"]
            ext[n["name"]] = obj
    for n in nodes[k:]:
        if n.get("ext"):
            continue
        if sc.get("replace") == n["name"]:
            program.add_command(probe.ProbeSrc, n["name"], {})     # (stands in until the first run is over)
            continue
        args = {}
        for s in SLOTS:
            if s in n["args"]:
                args[s] = _api_value(n["args"][s], program, sc.get("api_objects"), ext)
        if n.get("meta"):
            args["Metadata"] = dict(n["meta"])
        if first is not None:
            # API "template" use: the very same argument objects (lists of names) go into two programs
            first.add_command(getattr(probe, n["cls"]), n["name"], args)
        program.add_command(getattr(probe, n["cls"]), n["name"], args)
    if first is not None:
        import mpsim_probe
        saved = mpsim_probe.SIM
        mpsim_probe.SIM = _Quiet(saved)
        try:
            first.run()
        except Exception:  # noqa
            pass
        finally:
            mpsim_probe.SIM = saved
    program._mpsim_ext = ext
    return program, text


class _Quiet(object):
    """Simulator side for the earlier (template) program: same pull plans, nothing judged or logged."""

    def __init__(self, ctx):
        self.ctx = ctx
        self.serial = 100000

    def next_serial(self):
        self.serial += 1
        return self.serial

    def pull_plan(self, name, nrefs):
        return self.ctx.pull_plan(name, nrefs)

    def received(self, inst, shape):
        pass

    def fault_point(self, name, step):
        pass

    def pulled(self, consumer, dep, tok, before):
        pass


def _api_value(v, program, objects, ext=None):
    if isinstance(v, list):
        return [_api_value(x, program, objects, ext) for x in v]
    if ext and v in ext:
        return ext[v]
    if objects and v in program.commands:
        return program.commands[v]
    return v


def execute(sc):
    if sc.get("config") == "eems":
        return _execute_eems(sc)
    if sc.get("config") == "cyclic-eems":
        return _execute_cyclic_eems(sc)
    import mpsim_probe as probe
    from mpilot.program import Program
    from mpilot.exceptions import MPilotError, RecursiveModelStructure

    res = RunResult()
    n = len(sc["nodes"])
    nops = len(sc["ops"])
    log = EventLog(cap=50 * (n * 6 + nops + 4) + 400)
    res.log = log
    ctx = _Ctx(sc, log, res)
    cyclic = sc["config"] == "cyclic"
    faulty = sc["config"] == "faults"
    deps = pulled_deps_of(sc)
    pos = {nd["name"]: i for i, nd in enumerate(sc["nodes"])}
    gkey = h64(graph_key(sc))
    log.emit("scenario", prop=sc["prop"], config=sc["config"], n=n)
    depth_cap = 2 * n + 5
    enter_cap = 4 * n + 8
    total_enters = [0]
    reentered = set()
    op_entered = set()

    def on_enter(inst, key):
        total_enters[0] += 1
        if faulty and key in op_entered and key not in reentered:
            reentered.add(key)
            res.violate("C01.I1", "C01.I1 entered-twice-in-one-operation",
                        "%s entered a second time within one run()/result read (its first attempt had failed)" % key)
        op_entered.add(key)
        fin = sorted(pos[k] for k, c in ctx.monitor.instances.items()
                     if getattr(c, "is_finished", False) and k in pos)
        res.state_keys.add(h64([gkey, fin, [pos.get(k, -1) for k in ctx.monitor.stack]]))
        if cyclic:
            if len(ctx.monitor.stack) > depth_cap:
                res.violate("C14.nesting", "C14.nesting unbounded",
                            "execute nesting reached %d (> 2n+5 = %d)" % (len(ctx.monitor.stack), depth_cap))
                raise SimAbort()
            if total_enters[0] > enter_cap:
                res.violate("C14.nesting", "C14.enters unbounded",
                            "%d execute entries (> 4n+8 = %d)" % (total_enters[0], enter_cap))
                raise SimAbort()
            return
        if faulty:
            if ctx.monitor.returned.get(key, 0) >= 1 and key not in reentered:
                reentered.add(key)
                res.violate("C01.I1", "C01.I1 re-executed-after-success",
                            "%s entered again after its execute had returned" % key)
        elif ctx.monitor.counts[key] > 1 and key not in reentered:
            reentered.add(key)
            res.violate("C01.I1", "C01.I1 executed-more-than-once",
                        "%s entered %d times" % (key, ctx.monitor.counts[key]))

    mon = ExecMonitor(log, on_enter=on_enter, name_of=_key_of)
    ctx.monitor = mon
    probe.SIM = ctx
    threaded = bool(sc.get("knobs", {}).get("thread"))
    if threaded:
        res.probe("operations issued from a thread other than the main thread")
    program = None
    if sc.get("template_twice"):
        res.probe("the same argument objects were used for an earlier program (API template)")
    try:
        with Hygiene(recursion_limit=sc.get("knobs", {}).get("reclimit"), debug_logging=sc.get("knobs", {}).get("debug_log")):
            try:
                log.emit("op-begin", op="BUILD")
                program, text = _build(sc, Program, probe)
                ctx.program = program
                ctx.ext = program._mpsim_ext
                if ctx.ext:
                    res.probe("stand-alone command object referenced by object")
                    if any(o.result_name != k for k, o in ctx.ext.items()):
                        res.probe("stand-alone command object shares its result name with a command of the program")
                if any(not _identifier(nd["name"]) for nd in sc["nodes"]):
                    res.probe("free-form result name (API)")
                log.emit("op-end", op="BUILD", ok=True)
            except SimAbort:
                raise
            except Exception as exc:
                log.emit("op-end", op="BUILD", ok=False, exc=type(exc).__name__)
                res.violate(sc["prop"] + ".build", "%s.build %s" % (sc["prop"], type(exc).__name__),
                            "building a valid program failed: %r" % (exc,))
                return _finish(sc, res, mon, pos, gkey)
            mon.install([getattr(probe, c) for c in ("ProbeSrc", "ProbeSrcNoOut", "ProbeOp", "ProbeOpU", "ProbeSrcNone",
                                                     "ProbeOpNone", "ProbeOpNoOut")])
            if sc.get("late"):
                # first the acyclic part runs (not judged here), then the cycle is added to the same program
                try:
                    log.emit("op-begin", op="RUN-ACYCLIC-PART")
                    program.run()
                    log.emit("op-end", op="RUN-ACYCLIC-PART", ok=True)
                    res.probe("cycle added to a program that had already been run")
                except SimAbort:
                    raise
                except Exception as exc:  # noqa
                    log.emit("op-end", op="RUN-ACYCLIC-PART", ok=False)
                    res.observe("acyclic part failed to run: %s" % type(exc).__name__)
                for nd in sc["nodes"]:
                    if nd["name"] in sc["late"]:
                        args = {s_: _api_value(nd["args"][s_], program, False) for s_ in SLOTS if s_ in nd["args"]}
                        program.add_command(getattr(probe, nd["cls"]), nd["name"], args)
                mon.counts.clear()
                mon.returned.clear()
                total_enters[0] = 0
            if cyclic and sc.get("replace") in pos and sc.get("src_count", 0) == 0:
                saved_plans = ctx.plans.get(sc["replace"])
                ctx.plans[sc["replace"]] = []
                try:
                    log.emit("op-begin", op="RUN-BEFORE-REPLACEMENT")
                    program.run()
                    log.emit("op-end", op="RUN-BEFORE-REPLACEMENT", ok=True)
                    res.probe("a command of a program that had run was replaced by one that closes a cycle")
                except SimAbort:
                    raise
                except Exception as exc:  # noqa
                    log.emit("op-end", op="RUN-BEFORE-REPLACEMENT", ok=False)
                    res.observe("acyclic stand-in program failed to run: %s" % type(exc).__name__)
                ctx.plans[sc["replace"]] = saved_plans
                nd = sc["nodes"][pos[sc["replace"]]]
                del program.commands[nd["name"]]
                args = {s_: _api_value(nd["args"][s_], program, False) for s_ in SLOTS if s_ in nd["args"]}
                program.add_command(getattr(probe, nd["cls"]), nd["name"], args)
                mon.counts.clear()
                mon.returned.clear()
                total_enters[0] = 0
            complete = False
            gets = {}
            conc = sc.get("concurrent") if cyclic else None
            if conc and (len(conc["op2"]) == 1 or conc["op2"][1] in pos):
                import os
                import mpilot as _pkg
                scratch = os.path.dirname(os.path.dirname(os.path.abspath(_pkg.__file__)))
                roots = (os.path.join(scratch, "mpilot") + os.sep, os.path.join(scratch, "mpsim_probe.py"))
                depth_cap *= 2
                enter_cap *= 2
                op2 = conc["op2"]
                fns = [program.run, program.run if op2[0] == "RUN" else (lambda: ctx.cmd_of(op2[1]).result)]
                log.emit("op-begin", op="CONCURRENT", ops=[["RUN"], op2], switch=conc["switch"])
                outs = run_concurrently(fns, conc["switch"], roots, sc.get("knobs", {}).get("reclimit") or 1000, log)
                res.probe("two clients on one cyclic program at the same time")
                if log.count("switch"):
                    res.probe("control moved between the two clients inside the code under test")
                for who, (kind, val) in enumerate(outs):
                    if kind == "raise" and isinstance(val, SimAbort):
                        break
                    _judge_cyclic(sc, res, mon, "ok" if kind == "ok" else "raise", None if kind == "ok" else val,
                                  RecursiveModelStructure)
            for op in ([] if conc and (len(conc["op2"]) == 1 or conc["op2"][1] in pos) else sc["ops"]):
                before = total_enters[0]
                op_entered.clear()
                log.emit("op-begin", op=op)
                outcome = "ok"
                exc_obj = None

                def call(f):
                    return run_in_thread(f, sc.get("knobs", {}).get("reclimit") or 1000) if threaded else f()
                try:
                    if op[0] == "RUN":
                        call(program.run)
                    elif op[0] == "GET":
                        tok = call(lambda: ctx.cmd_of(op[1]).result)
                        tid = log.token(tok)
                        log.emit("get", cmd=op[1], tok=tid)
                        if not cyclic:
                            if op[1] in ctx.none_result:
                                if tok is not None:
                                    res.violate("C01.I2", "C01.I2 client-read-wrong-result", "reading %s returned %r" % (op[1], tok))
                            elif getattr(tok, "owner", None) != op[1]:
                                res.violate("C01.I2", "C01.I2 client-read-wrong-result",
                                            "reading %s returned %r" % (op[1], tok))
                            if op[1] not in ctx.none_result and (
                                    gets.setdefault(op[1], tid) != tid or ctx.pulled_tokens.setdefault(op[1], tid) != tid):
                                res.violate("C01.I3", "C01.I3 result-identity",
                                            "reading %s returned a different object than before" % op[1])
                    elif op[0] == "CRUN":
                        call(ctx.cmd_of(op[1]).run)
                    elif op[0] == "META":
                        md = ctx.cmd_of(op[1]).metadata
                        want = next((nd.get("meta") or {} for nd in sc["nodes"] if nd["name"] == op[1]), {})
                        if not cyclic and dict(md) != dict(want):
                            res.violate("C01.meta", "C01.meta mismatch", "metadata of %s is %r" % (op[1], md))
                except SimAbort:
                    outcome = "abort"
                except Exception as exc:  # noqa
                    outcome = "raise"
                    exc_obj = exc
                added = total_enters[0] - before
                log.emit("op-end", op=op, outcome=outcome, exc=type(exc_obj).__name__ if exc_obj else None,
                         added=added)
                fin = sorted(pos[k] for k in pos if getattr(ctx.cmd_of(k), "is_finished", False))
                res.state_keys.add(h64([gkey, fin, op[0]]))
                if cyclic:
                    _judge_cyclic(sc, res, mon, outcome, exc_obj, RecursiveModelStructure)
                    if outcome == "abort" or res.violations or op[0] != "RUN":
                        break
                    if sc["ops"].index(op) == 0 and len(sc["ops"]) > 1:
                        res.probe("cyclic program run again after the rejection")
                    continue
                if outcome == "raise":
                    if not faulty:
                        res.violate("C01.raise", "C01.raise %s" % type(exc_obj).__name__,
                                    "%r raised %r on a valid acyclic program" % (op, exc_obj))
                        break
                    res.observe("op raised after injected fault: " + type(exc_obj).__name__)
                    if not isinstance(exc_obj, MPilotError):
                        res.observe("non-MPilot exception escaped after injected fault (C13's business)")
                    continue
                if outcome == "abort":
                    break
                # ---- per-operation oracles (fault-free semantics) -----------------------------
                if complete:
                    res.probe("operation after everything finished")
                    if added:
                        res.violate("C01.I5", "C01.I5 executes-after-completion",
                                    "%r executed %d commands after the program had completed" % (op, added))
                if op[0] in ("GET", "CRUN"):
                    need = closure(deps, op[1])
                    bad = sorted(x for x in need if mon.counts.get(x, 0) != 1) if not faulty else \
                        sorted(x for x in need if mon.returned.get(x, 0) < 1)
                    if bad:
                        res.violate("C01.I4", "C01.I4 pull-left-dependencies-unexecuted",
                                    "after %r these commands had not executed exactly once: %r" % (op, bad))
                    if not complete:
                        res.probe("partial pull-evaluation before the first complete RUN")
                if op[0] == "RUN":
                    # every command of the program, and every stand-alone input one of them reads
                    due = set()
                    for x in pos:
                        if x not in ctx.ext:
                            due |= closure(deps, x)
                    if faulty:
                        bad = sorted(x for x in due if mon.returned.get(x, 0) < 1)
                    else:
                        bad = sorted(x for x in due if mon.counts.get(x, 0) != 1)
                    if bad:
                        res.violate("C01.I4", "C01.I4 run-incomplete",
                                    "after run() these commands had not executed exactly once: %r "
                                    "(counts %r)" % (bad, {x: mon.counts.get(x, 0) for x in bad}))
                    if complete:
                        res.probe("run() after everything finished")
                    complete = not bad and all(mon.returned.get(x, 0) >= 1 for x in pos)
                if not complete and all(mon.returned.get(x, 0) >= 1 for x in pos):
                    complete = True
                    res.probe("program completed by result reads alone")
    finally:
        mon.uninstall()
        probe.SIM = None
    return _finish(sc, res, mon, pos, gkey)


def _judge_cyclic(sc, res, mon, outcome, exc_obj, RecursiveModelStructure):
    n = len(sc["nodes"])
    if outcome == "abort":
        return
    if outcome == "ok":
        left = sorted(nd["name"] for nd in sc["nodes"] if mon.counts.get(nd["name"], 0) == 0)
        res.violate("C14.reject", "C14.reject returned-normally",
                    "run() of a cyclic program returned normally; never executed: %r" % (left,))
        return
    chain = exc_chain(exc_obj)
    if any(isinstance(e, RecursionError) for e in chain):
        res.violate("C14.stack", "C14.stack exhausted",
                    "run() of a cyclic program ran the interpreter out of stack (%s)" % type(exc_obj).__name__)
        return
    if not isinstance(exc_obj, RecursiveModelStructure):
        res.violate("C14.reject", "C14.reject wrong-error %s" % type(exc_obj).__name__,
                    "run() of a cyclic program raised %r instead of the recursive-model error" % (exc_obj,))
        return
    res.probe("cyclic program rejected with the recursive-model error")
    if any(mon.counts.get(nd["name"], 0) for nd in sc["nodes"]):
        res.observe("acyclic part executed before the rejection")


def _finish(sc, res, mon, pos, gkey):
    order = [ev[1]["cmd"] for ev in res.log.events if ev[0] == "exec-enter"]
    res.schedule_key = h64([gkey, [pos.get(x, -1) for x in order]])
    res.case_key = h64([gkey, sc["ops"], [nd["plan"] for nd in sc["nodes"]], sc.get("faults")])
    deps = deps_of(sc)
    nedges = sum(len(v) for v in deps.values())
    res.nontrivial = (len(sc["nodes"]) >= 2 and nedges >= 1) if sc["config"] != "cyclic" else has_cycle(sc)
    # reach probes
    textpos = pos
    if any(textpos[d] > textpos[c] for c, ds in deps.items() for d in ds if d in textpos):
        res.probe("consumer precedes producer in the file (forward reference)")
    fan = {}
    for c, ds in deps.items():
        for d in ds:
            fan[d] = fan.get(d, 0) + 1
    if any(v >= 2 for v in fan.values()):
        res.probe("result shared by >= 2 consumers")
    for nd in sc["nodes"]:
        a = nd["args"]
        if a and "A" not in a and "B" not in a:
            res.probe("list-only reference")
        if "NN" in a:
            res.probe("nested list depth 3")
        elif "N" in a:
            res.probe("nested list depth 2")
        refs = list(iter_refs(a))
        if len(refs) != len(set(refs)):
            res.probe("same dependency referenced twice by one command")
        if len(nd["plan"]) > len(refs):
            res.probe("dependency pulled more than once by one command")
        if nd.get("exact") and len(set(nd["plan"])) < len(refs):
            res.probe("consumer that does not read one of its referenced inputs")
    if sc.get("src_count", 0) and sc.get("src_count") < len(sc["nodes"]):
        res.probe("mixed construction (source + API)")
    if sc.get("src_count", 0) == 0:
        res.probe("API construction")
    res.steps = res.log.seq
    return res


# ------------------------------------------------------------------------------------------------
# shrinking
# ------------------------------------------------------------------------------------------------
def shrink_candidates(sc):
    def clone():
        return copy.deepcopy(sc)

    if sc.get("config") == "cyclic-eems":
        if sc.get("order") != sorted(sc["order"]):
            c = clone()
            c["order"] = sorted(c["order"])
            yield c
        return
    if sc.get("config") == "eems":
        from ..refmodel import eems as ref
        if len(sc["ops"]) > 1:
            for i in range(len(sc["ops"])):
                c = clone()
                del c["ops"][i]
                c["sched"]["history"] = c["ops"]
                yield c
        cmds = sc["model"]["cmds"]
        used = set()
        for cm in cmds:
            used.update(ref.refs_of(cm))
        opnames = {op[1] for op in sc["ops"] if len(op) > 1}
        for i in reversed(range(len(cmds))):
            if cmds[i]["name"] in used or cmds[i]["name"] in opnames or len(cmds) <= 1:
                continue
            c = clone()
            del c["model"]["cmds"][i]
            c["sched"]["order"] = [j - (1 if j > i else 0) for j in c["sched"]["order"] if j != i]
            yield c
        if sc["sched"].get("layout") != PLAIN:
            c = clone()
            c["sched"]["layout"] = dict(PLAIN)
            yield c
        return
    cyc = sc["config"] == "cyclic"
    # drop operations
    if len(sc["ops"]) > 1:
        for i in range(len(sc["ops"])):
            c = clone()
            del c["ops"][i]
            yield normalize(c)
    # drop faults
    for i in range(len(sc.get("faults", []))):
        c = clone()
        del c["faults"][i]
        if c["config"] == "faults" and not c["faults"]:
            continue
        yield normalize(c)
    # drop nodes
    for i in range(len(sc["nodes"])):
        if len(sc["nodes"]) <= 1:
            break
        c = clone()
        del c["nodes"][i]
        c = normalize(c)
        if cyc and not has_cycle(c):
            continue
        yield c
    # drop single references
    for i, nd in enumerate(sc["nodes"]):
        nrefs = sum(1 for _ in iter_refs(nd["args"]))
        for o in range(nrefs):
            c = clone()
            filter_refs(c["nodes"][i], lambda k, name, o=o: k != o)
            c = normalize(c)
            if cyc and not has_cycle(c):
                continue
            yield c
    # flatten nested lists into L, minimal plans
    for i, nd in enumerate(sc["nodes"]):
        if "N" in nd["args"] or "NN" in nd["args"]:
            c = clone()
            a = c["nodes"][i]["args"]
            flat = list(a.get("L", [])) + list(_flat(a.get("N", []))) + list(_flat(a.get("NN", [])))
            a.pop("N", None)
            a.pop("NN", None)
            a["L"] = flat
            c["nodes"][i]["plan"] = []
            yield normalize(c)
        nrefs = sum(1 for _ in iter_refs(nd["args"]))
        if nd["plan"] != list(range(nrefs)) and not nd.get("exact"):
            c = clone()
            c["nodes"][i]["plan"] = list(range(nrefs))
            yield c
        if nd.get("meta"):
            c = clone()
            c["nodes"][i].pop("meta")
            yield c
        if nd.get("exact"):
            c = clone()
            c["nodes"][i].pop("exact")
            yield normalize(c)
    # canonical construction and layout
    if sc.get("src_count") != len(sc["nodes"]):
        c = clone()
        c["src_count"] = len(c["nodes"])
        yield c
    if sc.get("layout") != PLAIN:
        c = clone()
        c["layout"] = dict(PLAIN)
        yield c
    if sc.get("api_objects"):
        c = clone()
        c["api_objects"] = False
        yield c
    if sc.get("template_twice"):
        c = clone()
        c["template_twice"] = False
        yield c
    if sc.get("late"):
        c = clone()
        c.pop("late")
        yield c
    # topological textual order
    if not cyc:
        deps = deps_of(sc)
        done, order = set(), []
        nodes = list(sc["nodes"])
        while nodes:
            for nd in nodes:
                if all(d in done for d in deps[nd["name"]]):
                    order.append(nd)
                    done.add(nd["name"])
                    nodes.remove(nd)
                    break
            else:
                break
        if not nodes and [x["name"] for x in order] != [x["name"] for x in sc["nodes"]]:
            c = clone()
            c["nodes"] = copy.deepcopy(order)
            yield c


def sample(sc):
    if sc.get("config") == "cyclic-eems":
        return {"family": "cyclic-eems", "commands": [[c["name"], c["cmd"], c["args"]] for c in sc["model"]["cmds"]],
                "back_edge": sc.get("back_edge"), "file_order": sc.get("order")}
    if sc.get("config") == "eems":
        return {"family": "eems-model", "commands": [[c["name"], c["cmd"]] for c in sc["model"]["cmds"]],
                "file_order": sc["sched"].get("order"), "history": sc["ops"]}
    return {
        "family": sc.get("family"), "config": sc["config"],
        "commands_in_file_order": [[n["name"], n["cls"], n["args"], {"pull_plan": n["plan"]}] for n in sc["nodes"]],
        "built_from_source": sc.get("src_count"), "history": sc["ops"], "faults": sc.get("faults", []),
    }


RULES = {
    "C01": "Each case = (dependency graph drawn from 11 shape families with direct/list/nested-2/nested-3 "
           "references, textual order, construction route, per-command pull plan, client history of "
           "run()/result/run-one/metadata operations, optional planned execute faults). Distinct = distinct hash of "
           "(graph in file order, pull plans, history, faults); non-trivial = at least two commands and one "
           "reference.",
    "C14": "Each case = a digraph with at least one cycle (self-loop, 2-cycle, k-cycle, several cycles, tails in/out, "
           "separate acyclic component) with direct/list/nested references, a textual order and a construction "
           "route; operation run(). Distinct = distinct hash of (graph in file order, pull plans); non-trivial = "
           "contains a cycle and at least two commands or a self-loop.",
}

COMPONENTS = {
    "real": ["every 8th C01 run: real EEMS commands (csv, basic, fuzzy libraries) on SimFS",
             "mpilot.program.Program (from_source, add_command, run)", "mpilot.commands.Command (run, result, metadata)",
             "mpilot.params (ResultParameter, ListParameter, TupleParameter cleaning)", "mpilot.parser (PLY lexer/parser)",
             "mpilot.utils.flatten", "library loading through libraries=('mpsim_probe',)"],
    "stub": ["execute() bodies of the probe commands (pull plan and tokens supplied by the simulator)"],
}


def worker_init(scratch):
    from mpilot.program import Program
    Program()


STATE_MEASURE = {'C01': 'abstract state = (graph in file order, set of finished commands, execute stack) sampled at every execute entry and after every client operation; schedule = (graph, order of execute entries)', 'C14': 'abstract state = (graph in file order, set of finished commands, execute stack) at every execute entry; schedule = (graph, order of execute entries)'}
