"""histsim/parse - histories of parses and loads (C11: line numbers are the true source lines).

Real: PLY lexer/parser, Parser objects that survive between operations, Program.from_source/run,
params, libraries, CLI.  Stub: SimFS.  The renderer keeps a ledger of the true first line of every
command, argument and list element.
"""
from __future__ import annotations

import copy
import re

from ..core import EventLog, RunResult, SimAbort, h64
from ..render import render, random_layout, PLAIN
from ..seams import Hygiene
from .. import modelgen
from ..refmodel import eems
from . import modelsim_faults as mf

ENGINE = "histsim_parse"
BUDGET = {"C11": {"quick": 16000, "thorough": 250000}}

# located faults of the built-in CSV configuration (library-selection and plug-in cells belong to C12 only)
CELLS = [c for c in mf.MATRIX12 if not c.get("plugin") and not c.get("config") and c["kind"] != "unselected-library"]

C11_LIBS = ("mpilot.libraries.eems.basic", "mpilot.libraries.eems.csv", "mpilot.libraries.eems.fuzzy", "mpsim_c11lib")

EXEC_FAULTS = ("exec-direction", "exec-weights", "exec-thresholds", "exec-k", "exec-dupraw", "exec-lengths")


# ------------------------------------------------------------------------------------------------
# generation
# ------------------------------------------------------------------------------------------------
WORDS = ("Alpha", "beta_2", "Gamma", "x", "Read", "InFieldName", "T1", "_u", "Sum", "Out")


def _free_value(rng, depth=0):
    r = rng.random()
    if r < 0.2:
        return rng.randint(-50, 50)
    if r < 0.35:
        return rng.randint(-400, 400) / 8.0
    if r < 0.55:
        return rng.choice(WORDS)
    if r < 0.65:
        return rng.choice(["in file.csv", "a.b", "C:/data/x.nc", "hello world", "1st", "x-y", "p(q)", "#notcomment"])
    if r < 0.69:
        # a quoted string with backslash escapes: two characters each, no line break (emitted verbatim)
        return {"$raw": rng.choice(['"line1\\nline2"', "'tab\\there'", '"a\\nb\\nc\\n"', '"C:\\\\data\\\\new"'])}
    if r < 0.72:
        return rng.random() < 0.5
    if r < 0.76:
        # a quoted string that itself spans lines (a description, a multi-line label): what follows it starts further down
        return {"$raw": rng.choice(['"first line\nsecond line"', "'a\n\nb'", '"ends with a break\n"', '"x\r\ny"',
                                    '"one\ntwo\nthree"', '"page\x0cbreak"', '"ls\u2028sep"', '"nel\x85x"', '"vt\x0bx\x1ey"'])}
    if r < 0.92 and depth < 3:
        return [_free_value(rng, depth + 1) for _ in range(rng.choice([0, 1, 2, 3, 4]))]
    if depth == 0:
        return {rng.choice(["K", "DisplayName", "Color"]): rng.choice(["v", "The Command", "Blue 2"])}
    return rng.randint(0, 9)


def _free_program(rng):
    n = rng.choice([1, 2, 3, 4, 6])
    v2 = rng.random() < 0.15
    prog = []
    for i in range(n):
        args = []
        used = set()
        for _ in range(rng.choice([0, 1, 2, 3, 5])):
            name = rng.choice(WORDS)
            if name in used:
                continue
            used.add(name)
            args.append([name, _free_value(rng)])
        prog.append({"result": None if (v2 and rng.random() < 0.6) else "R%d" % i, "cmd": rng.choice(WORDS),
                     "args": args})
    return prog


def _gen_doc(rng, tier, want_fault=None):
    r = rng.random()
    lay = random_layout(rng, wild=True)
    if rng.random() < 0.5:
        lay["arg_nl"] = rng.choice([0.5, 0.9])
    if rng.random() < 0.25:
        lay["exotic_cmt"] = 0.5      # form feeds, U+2028 etc. inside comments: not line breaks for the lexer
    if r < 0.35 and want_fault is None:
        return {"kind": "free", "program": _free_program(rng), "layout": lay}
    # a model document with (usually) one located fault
    kind = want_fault
    cell = rng.choice(CELLS)
    model = mf.model_with(rng, cell["cmd"], tier)
    fault = None
    if rng.random() < 0.85:
        if rng.random() < 0.25:
            fault = _exec_fault(rng, model)
        if fault is None:
            fault = mf.concretise(rng, model, cell)
            if fault is not None and fault.get("no_wd"):
                fault = None
    n = len(model["cmds"])
    order = list(range(n))
    if rng.random() < 0.6:
        rng.shuffle(order)
    if fault and fault["kind"] == "duplicate-result":
        fault["dup_pos"] = rng.randint(0, n + 1)
    if fault and fault["kind"] == "extra-param":
        fault["pos"] = rng.randint(0, 6)
    doc = {"kind": "model", "model": model, "order": order, "argseed": rng.randrange(1 << 20), "layout": lay,
           "fault": fault, "bad_data": fault is None and rng.random() < 0.4}
    r = rng.random()
    if r < 0.06:
        # plug-in producer whose finished value does not match its declared kind: noticed when a later consumer is cleaned
        data = [c["name"] for c in model["cmds"] if c["cmd"] not in ("EEMSWrite", "PrintVars")]
        extra = [{"name": "bd", "cmd": "BadData", "args": {}},
                 {"name": "pvx", "cmd": "PrintVars", "args": {"InFieldNames": ["bd"]}},
                 {"name": "cz", "cmd": "Copy", "args": {"InFieldName": "bd"}}]
        model["cmds"].extend(extra)
        doc["order"] = list(range(len(model["cmds"])))
        if rng.random() < 0.5:
            rng.shuffle(doc["order"])
        doc["fault"] = {"kind": "exec-baddata", "target": "cz", "cmd": "Copy", "param": "InFieldName"}
        doc["libs"] = True
    elif r < 0.12:
        data = [c["name"] for c in model["cmds"] if c["cmd"] not in ("EEMSWrite", "PrintVars")]
        model["cmds"].append({"name": "fl", "cmd": "ForeignLineno", "args": {"InFieldName": rng.choice(data)}})
        doc["order"] = list(range(len(model["cmds"])))
        rng.shuffle(doc["order"])
        doc["fault"] = {"kind": "exec-foreign-lineno", "target": "fl", "cmd": "ForeignLineno"}
        doc["libs"] = True
    elif r < 0.20:
        # a plug-in that takes undeclared inputs (passed through as they are), some of them on lines of their own
        data = [c["name"] for c in model["cmds"] if c["cmd"] not in ("EEMSWrite", "PrintVars")]
        args = {"InFieldName": rng.choice(data)}
        for nm in rng.sample(["Note", "Level", "Tags", "Opts"], rng.randint(1, 3)):
            args[nm] = {"Note": "abc", "Level": 3, "Tags": ["a", "b"], "Opts": 0.5}[nm]
        fails = rng.random() < 0.5 and not fault     # one located fault per document
        if fails:
            args["Fail"] = 1
        model["cmds"].append({"name": "px", "cmd": "Passthrough", "args": args})
        doc["order"] = list(range(len(model["cmds"])))
        rng.shuffle(doc["order"])
        if fails:
            doc["fault"] = {"kind": "exec-own-line", "target": "px", "cmd": "Passthrough"}
        doc["libs"] = True
    elif r < 0.27 and not fault:
        # a reference cycle fed by a command that nothing else uses: the error belongs to a command of the cycle
        reads = [c["name"] for c in model["cmds"] if c["cmd"] == "EEMSRead"]
        if reads:
            model["cmds"].extend([{"name": "cyF", "cmd": "Copy", "args": {"InFieldName": rng.choice(reads)}},
                                  {"name": "cyA", "cmd": "AMinusB", "args": {"A": "cyF", "B": "cyB"}},
                                  {"name": "cyB", "cmd": "Copy", "args": {"InFieldName": "cyA"}}])
            doc["order"] = list(range(len(model["cmds"])))
            rng.shuffle(doc["order"])
            doc["fault"] = {"kind": "cycle", "target": "cyA", "members": ["cyA", "cyB"], "cmd": "AMinusB"}
    elif fault and fault["kind"] in ("unknown-command", "missing-param", "duplicate-result") and rng.random() < 0.35:
        # the offending command is written in EEMS 2.0 form (no result name; NewFieldName gives it); files in that
        # dialect cannot carry OutFileName arguments, so the sinks are left out
        doc["v2_target"] = True
    return doc


def _exec_fault(rng, model):
    """A fault that is by design only noticed inside execute()."""
    cands = []
    for c in model["cmds"]:
        a = c["args"]
        if "Direction" in a or c["cmd"] in ("CvtToBinary", "CvtToFuzzy"):
            cands.append({"kind": "exec-direction", "target": c["name"], "cmd": c["cmd"]})
        if "Weights" in a and len(a["Weights"]) >= 1:
            cands.append({"kind": "exec-weights", "target": c["name"], "cmd": c["cmd"]})
        if c["cmd"] == "CvtFromFuzzy" or (c["cmd"] == "CvtToFuzzy" and "TrueThreshold" in a and "FalseThreshold" in a):
            cands.append({"kind": "exec-thresholds", "target": c["name"], "cmd": c["cmd"]})
        if c["cmd"] == "FuzzySelectedUnion":
            cands.append({"kind": "exec-k", "target": c["name"], "cmd": c["cmd"]})
        if "RawValues" in a and len(a["RawValues"]) >= 2:
            cands.append({"kind": "exec-dupraw", "target": c["name"], "cmd": c["cmd"]})
            cands.append({"kind": "exec-lengths", "target": c["name"], "cmd": c["cmd"]})
    return rng.choice(cands) if cands else None


def generate(prop, rng, index, tier):
    ndocs = rng.choice([1, 2, 2, 3, 4])
    docs = [_gen_doc(rng, tier) for _ in range(ndocs)]
    ops = [["NEW"]]
    nparsers = 1
    for _ in range(rng.choice([2, 3, 4, 5, 6, 8, 10])):
        r = rng.random()
        d = rng.randrange(ndocs)
        if r < 0.08:
            ops.append(["NEW"])
            nparsers += 1
        elif r < 0.5:
            # the same document may come back later with some blank lines in front of it
            ops.append(["PARSE", rng.randrange(nparsers), d, rng.choice([0, 0, 0, 1, 2, 5])])
        elif r < 0.62:
            ops.append(["PARSE_BAD", rng.randrange(nparsers), d,
                        {"op": rng.choice(["delete", "unbalance-open", "unbalance-close", "quote-open", "garbage-char",
                                           "duplicate", "string-for-command", "string-for-command"]),
                         "tok": rng.randrange(10000), "tok2": rng.randrange(10000)}])
        elif r < 0.84:
            ops.append(["LOAD", d])
        elif r < 0.855:
            # the NetCDF library: a variable that the file does not have, or data that is not of the declared kind
            ops.append(["NCLOAD", rng.choice(["nosuchvar", "nosuchvar", "fuzzy"]), rng.randint(0, 6), rng.random() < 0.5])
        elif r < 0.87:
            # API: a command object constructed directly (as the test-suite does), validated when it runs
            ops.append(["DIRECT", rng.choice(["undeclared", "missing", "wrong-kind"]), rng.randint(2, 40), rng.randint(41, 90)])
        else:
            ops.append(["CLI", d])
    return {"engine": ENGINE, "prop": "C11", "docs": docs, "ops": ops}


# ------------------------------------------------------------------------------------------------
# documents
# ------------------------------------------------------------------------------------------------
def apply_exec_fault(nodes, fault):
    node = next((n for n in nodes if n["name"] == fault["target"]), None)
    if node is None:
        return {"inapplicable": True}

    def get(name):
        for a in node["args"]:
            if a[0] == name:
                return a
        return None

    k = fault["kind"]
    if k == "exec-direction":
        a = get("Direction")
        if a:
            a[1] = "Sideways"
        else:
            node["args"].append(["Direction", "Sideways"])
    elif k == "exec-weights":
        a = get("Weights")
        if not a:
            return {"inapplicable": True}
        a[1] = list(a[1]) + [1]
    elif k == "exec-thresholds":
        t, f = get("TrueThreshold"), get("FalseThreshold")
        if not (t and f):
            return {"inapplicable": True}
        f[1] = t[1]
    elif k == "exec-k":
        a, n = get("NumberToConsider"), get("InFieldNames")
        if not (a and n):
            return {"inapplicable": True}
        a[1] = len(n[1]) + 1
    elif k == "exec-dupraw":
        a = get("RawValues")
        if not a or len(a[1]) < 2:
            return {"inapplicable": True}
        a[1] = list(a[1])
        a[1][1] = a[1][0]
    elif k == "exec-lengths":
        a = get("RawValues")
        if not a or len(a[1]) < 2:
            return {"inapplicable": True}
        a[1] = list(a[1])[:-1]
    return {"node": node, "line_of": "exec"}


def doc_text(doc):
    """(text, ledger, nodes, fault info) of a document."""
    if doc["kind"] == "free":
        nodes = copy.deepcopy(doc["program"])
        text, ledger = render(nodes, doc.get("layout") or PLAIN)
        return text, ledger, nodes, {}
    from .modelsim import program_nodes
    nodes = program_nodes(doc["model"]["cmds"], doc.get("order"), doc.get("argseed", 0))
    fault = doc.get("fault")
    info = {}
    if fault:
        if fault["kind"] == "cycle":
            node = next((n for n in nodes if n["name"] == fault["target"]), None)
            info = {"node": node, "line_of": "cycle", "members": list(fault["members"])} if node is not None else \
                {"inapplicable": True}
        elif fault["kind"] in ("exec-baddata", "exec-foreign-lineno", "exec-own-line"):
            node = next((n for n in nodes if n["name"] == fault["target"]), None)
            where = {"exec-baddata": "arg:InFieldName", "exec-foreign-lineno": "exec", "exec-own-line": "command"}
            info = {"node": node, "line_of": where[fault["kind"]]} if node is not None else {"inapplicable": True}
        elif fault["kind"].startswith("exec-"):
            info = apply_exec_fault(nodes, fault)
        else:
            info = mf.apply_fault(nodes, fault)
    if doc.get("v2_target") and info.get("node") is not None:
        from ..refmodel.declarations import V2_NAMES
        nodes[:] = [n for n in nodes if not any(a[0] == "OutFileName" for a in n["args"])]
        for n in nodes:
            if n is info["node"] or (fault["kind"] == "duplicate-result" and n["name"] == fault["target"]):
                n["args"] = [a for a in n["args"] if a[0] != "NewFieldName"] + [["NewFieldName", n["name"]]]
                n["result"] = None
                n["cmd"] = V2_NAMES.get(n["cmd"], n["cmd"])
        if info["node"] not in nodes:
            info = {"inapplicable": True}
    text, ledger = render(nodes, doc.get("layout") or PLAIN)
    return text, ledger, nodes, info


# ------------------------------------------------------------------------------------------------
# oracles
# ------------------------------------------------------------------------------------------------
def _check_value(node, led, path, bad, off=0):
    """node: ExpressionNode; led: ledger value entry."""
    if getattr(node, "lineno", None) != led["line"] + off:
        bad.append("%s: lineno %r, true line %d" % (path, getattr(node, "lineno", None), led["line"] + off))
    v = getattr(node, "value", None)
    if "items" in led:
        if not isinstance(v, list) or len(v) != len(led["items"]):
            return "structure"
        for i, (sub, subled) in enumerate(zip(v, led["items"])):
            r = _check_value(sub, subled, "%s[%d]" % (path, i), bad, off)
            if r:
                return r
    return None


def check_tree(tree, ledger, nodes, off=0):
    """Returns (list of line mismatches, structural-mismatch flag); `off` = blank lines put in front of the text."""
    bad = []
    cmds = getattr(tree, "commands", None)
    if cmds is None or len(cmds) != len(ledger):
        return bad, True
    for ci, (cn, led, node) in enumerate(zip(cmds, ledger, nodes)):
        if cn.command != node["cmd"]:
            return bad, True
        if cn.lineno != led["line"] + off:
            bad.append("command %d (%s): lineno %r, true line %d" % (ci, node["cmd"], cn.lineno, led["line"] + off))
        if len(cn.arguments) != len(led["arglist"]):
            return bad, True
        for an, aled in zip(cn.arguments, led["arglist"]):
            if an.name != aled["name"]:
                return bad, True
            if an.lineno != aled["line"] + off:
                bad.append("argument %s of command %d: lineno %r, true line %d" % (an.name, ci, an.lineno,
                                                                                  aled["line"] + off))
            if _check_value(an.value, aled["value"], "value of %s of command %d" % (an.name, ci), bad, off):
                return bad, True
    return bad, False


def allowed_lines(doc, ledger, nodes, info):
    """(set of acceptable error lines, whether None is acceptable, description)."""
    fault = doc.get("fault")
    node = info.get("node")
    idx = next((i for i, n in enumerate(nodes) if n is node), None)
    if idx is None:
        return None
    led = ledger[idx]
    where = info.get("line_of", "command")
    if where == "cycle":
        lines = set()
        for n, l in zip(nodes, ledger):
            if n["name"] in info.get("members", ()):
                lines |= set(range(l["line"], l["end_line"] + 1))
        return lines, False, "a command of the cycle, lines %s" % sorted(lines)
    if where == "command":
        return {led["line"]}, False, "command line %d" % led["line"]
    if where == "within":
        return set(range(led["line"], led["end_line"] + 1)), False, "lines %d-%d of the command" % (led["line"], led["end_line"])
    if where.startswith("dup:"):
        # a parameter given twice: the offending things are the command and the two occurrences of that parameter,
        # not whatever other argument happens to stand last (seeded change C11-i1)
        name = where.split(":", 1)[1]
        lines = {led["line"]}
        for a in led["arglist"]:
            if a["name"] == name:
                lines |= set(range(a["line"], a["end"] + 1))
        return lines, False, "the command's line or an occurrence of %s, lines %s" % (name, sorted(lines))
    if where == "exec":
        # a command that finds its own settings inconsistent (lengths, thresholds, directions, weights) validates
        # parameters: that error carries a line of the command; other execute-time failures may carry none
        settings = (doc.get("fault") or {}).get("kind") in ("exec-direction", "exec-weights", "exec-thresholds", "exec-k",
                                                             "exec-dupraw", "exec-lengths")
        return set(range(led["line"], led["end_line"] + 1)), not settings, "%slines %d-%d" % (
            "" if settings else "none or ", led["line"], led["end_line"])
    name = where.split(":", 1)[1]
    a = led["args"].get(name)
    if a is None:
        return None
    if "items" not in a.get("value", {}):
        # a scalar (or key/value) argument is one thing: its line is the line it starts on, wherever its value is put
        return {a["line"]}, False, "argument %s, line %d" % (name, a["line"])
    return set(range(a["line"], a["end"] + 1)), False, "argument %s, lines %d-%d" % (name, a["line"], a["end"])


# ------------------------------------------------------------------------------------------------
# execution
# ------------------------------------------------------------------------------------------------
def execute(sc):
    from mpilot.parser.parser import Parser
    from mpilot.program import Program
    from mpilot.exceptions import MPilotError

    res = RunResult()
    log = EventLog(cap=60000)
    res.log = log
    log.emit("scenario", prop="C11", ndocs=len(sc["docs"]), nops=len(sc["ops"]))
    rendered = []
    for doc in sc["docs"]:
        try:
            rendered.append(doc_text(doc))
        except ValueError as exc:
            res.observe("unrenderable document")
            return res
    parsers = []
    hist = []   # abstract history state per parser: what it parsed before
    with Hygiene():
        for op in sc["ops"]:
            log.emit("op-begin", op=op[:3])
            if op[0] == "NEW":
                parsers.append(Parser())
                hist.append([])
            elif op[0] in ("PARSE", "PARSE_BAD"):
                k = op[1] % len(parsers)
                text, ledger, nodes, info = rendered[op[2] % len(rendered)]
                doc = sc["docs"][op[2] % len(rendered)]
                if op[0] == "PARSE_BAD" and op[3]["op"] == "string-for-command":
                    # a quoted string that spans lines stands where a command name belongs: the syntax error is about that
                    # token, which starts on the line of the command
                    ci = op[3]["tok"] % len(ledger) if ledger else None
                    if ci is None:
                        continue
                    eol_ = doc["layout"].get("eol") or "\n"
                    starts = [0] + [m_.end() for m_ in re.finditer(r"\r\n|\r|\n", text)] + [len(text)]
                    li = ledger[ci]["line"] - 1
                    if li + 1 >= len(starts):
                        continue
                    new_line, nsub = re.subn(r"\b%s\b(\s*\()" % re.escape(nodes[ci]["cmd"]),
                                             lambda m_: '"two' + eol_ + 'lines"' + m_.group(1),
                                             text[starts[li]:starts[li + 1]], count=1)
                    if not nsub:
                        continue
                    exc_ = None
                    try:
                        parsers[k].parse(text[:starts[li]] + new_line + text[starts[li + 1]:])
                    except SimAbort:
                        raise
                    except Exception as e_:  # noqa
                        exc_ = e_
                    hist[k].append("bad:syntax" if isinstance(exc_, SyntaxError) else "bad:other")
                    log.emit("parse-bad", parser=k, outcome=type(exc_).__name__ if exc_ else "parsed", what="string-for-command")
                    res.probe("syntax error at a token that spans lines")
                    ln = getattr(exc_, "lineno", None) if isinstance(exc_, SyntaxError) else None
                    if ln is not None and ln != ledger[ci]["line"]:
                        res.violate("C11.syntax", "C11.syntax wrong-lineno multi-line-token",
                                    "SyntaxError carries line %r; the offending string starts on line %d" % (ln, ledger[ci]["line"]))
                    continue
                if op[0] == "PARSE_BAD":
                    bad_text = mf.corrupt_text(text, op[3])
                    try:
                        parsers[k].parse(bad_text)
                        outcome = "parsed"
                    except SyntaxError:
                        outcome = "syntax-error"
                        res.probe("parse failed half-way on a parser that is used again later")
                    except Exception as exc:
                        outcome = type(exc).__name__
                    hist[k].append("bad:" + outcome)
                    log.emit("parse-bad", parser=k, outcome=outcome)
                    continue
                prev = list(hist[k])
                shift = int(op[3]) if len(op) > 3 else 0
                if shift:
                    text = (doc["layout"].get("eol") or "\n") * shift + text
                    res.probe("document parsed again with blank lines in front")
                try:
                    tree = parsers[k].parse(text)
                except SimAbort:
                    raise
                except Exception as exc:
                    log.emit("parse-raise", parser=k, exc=type(exc).__name__)
                    res.observe("valid rendering did not parse (C10's business): %s" % type(exc).__name__)
                    hist[k].append("raise")
                    continue
                bad, structural = check_tree(tree, ledger, nodes, shift)
                log.emit("parse", parser=k, doc=op[2], shift=shift, mismatches=len(bad), structural=structural)
                if structural:
                    res.observe("parse tree structure differs from the rendered program (C10's business)")
                state = "first-parse" if not prev else ("after-failed-parse" if prev[-1].startswith("bad:syntax")
                                                        else "after-earlier-parse")
                eol = "crlf" if doc["layout"].get("eol") == "\r\n" else "lf"
                res.state_keys.add(h64([state, eol, len(prev) > 1]))
                res.probe("parse: " + state)
                if eol == "crlf":
                    res.probe("CRLF document parsed")
                if bad:
                    res.violate("C11.tree", "C11.tree wrong-lineno %s %s" % (state, eol),
                                "parser %d (history %r): %s" % (k, prev[-3:], "; ".join(bad[:3])))
                hist[k].append("ok")
            elif op[0] == "DIRECT":
                _direct(op, log, res, Program, MPilotError)
            elif op[0] == "NCLOAD":
                _ncload(op, log, res, Program, MPilotError)
            elif op[0] in ("LOAD", "CLI"):
                di = op[1] % len(rendered)
                doc = sc["docs"][di]
                text, ledger, nodes, info = rendered[di]
                if doc["kind"] != "model" or info.get("inapplicable"):
                    # a free document has no library; loading it only exercises the unknown-command path
                    continue
                _load(sc, op[0], doc, text, ledger, nodes, info, log, res, Program, MPilotError)
            log.emit("op-end", op=op[0])
    res.case_key = h64([sc["ops"], [d.get("layout") for d in sc["docs"]],
                        [(d.get("fault") or {}).get("kind") for d in sc["docs"]]])
    res.schedule_key = h64(sc["ops"])
    res.nontrivial = len(sc["ops"]) >= 3
    return res


def _ncload(op, log, res, Program, MPilotError):
    """A NetCDF read that must fail: the error belongs to the read command, whose line is known."""
    import os
    kind, lead, via_cli = op[1], int(op[2]), bool(op[3])
    nc = os.path.join(os.environ.get("MPSIM_SCRATCH", ""), "repo_test_data", "netcdf_test.nc")
    if not os.path.exists(nc):
        return
    body = ['# a model over the NetCDF library', 'A = EEMSRead(', '    InFileName = "%s",' % nc,
            '    InFieldName = %s%s' % ("no_such_variable" if kind == "nosuchvar" else "elevation",
                                         "" if kind == "nosuchvar" else ",\n    DataType = Fuzzy"), ')',
            'B = Copy(InFieldName = A)']
    text = "\n" * lead + "\n".join(body) + "\n"
    first, last = lead + 2, lead + 2 + text[text.index("A = "):].split(")")[0].count("\n")
    libs = ("mpilot.libraries.eems.basic", "mpilot.libraries.eems.netcdf", "mpilot.libraries.eems.fuzzy")
    exc, marked = None, None
    if via_cli:
        from ..simfs import SimFS
        from ..seams import StdCapture
        fs = SimFS(log, res, files={mf.MODEL_PATH: text}, dirs=[mf.WORK])
        with fs, StdCapture(log) as cap:
            try:
                from mpilot.cli.mpilot import main
                main.main(args=["eems-netcdf", mf.MODEL_PATH], standalone_mode=False)
            except SystemExit:
                pass
            except SimAbort:
                raise
            except Exception as e:  # noqa
                exc = e
        m = re.search(r"^--> (.*)$", cap.err.getvalue(), re.M)
        marked = m.group(1) if m else None
        lines = text.split("\n")
        log.emit("ncload", kind=kind, route="cli", marked=marked is not None)
        res.probe("NetCDF read that fails, through the command-line tool")
        if exc is not None:
            res.observe("exception escaped from the CLI (C13's business)")
            return
        ok = [lines[i - 1] for i in range(first, last + 1)]
        if marked is None:
            if kind == "nosuchvar":
                res.violate("C11.cli", "C11.cli no-marked-line netcdf-%s" % kind,
                            "CLI marked no line for a read of a variable the file does not have (lines %d-%d)" % (first, last))
        elif marked not in ok:
            res.violate("C11.cli", "C11.cli wrong-marked-line netcdf-%s" % kind, "CLI marked %r, the read is %r" % (marked, ok))
        return
    try:
        Program.from_source(text, libraries=libs).run()
    except SimAbort:
        raise
    except Exception as e:  # noqa
        exc = e
    log.emit("ncload", kind=kind, route="lib", exc=type(exc).__name__ if exc else None)
    res.probe("NetCDF read that fails: " + kind)
    if exc is None or not isinstance(exc, MPilotError):
        res.observe("NetCDF read: %s (C12/C13's business)" % (type(exc).__name__ if exc else "accepted"))
        return
    ln = getattr(exc, "lineno", None)
    if ln is None:
        if kind == "nosuchvar":
            res.violate("C11.error", "C11.error no-lineno netcdf-%s %s" % (kind, type(exc).__name__),
                        "%s carries no line (the read is on lines %d-%d)" % (type(exc).__name__, first, last))
    elif not first <= ln <= last:
        res.violate("C11.error", "C11.error wrong-lineno netcdf-%s %s" % (kind, type(exc).__name__),
                    "%s carries line %r (the read is on lines %d-%d)" % (type(exc).__name__, ln, first, last))


def _direct(op, log, res, Program, MPilotError):
    """A command built directly with Argument objects that carry lines; its parameters are validated when it runs."""
    from mpilot.arguments import Argument
    kind, cline, aline = op[1], op[2], op[3]
    program = Program()
    cls = program.find_command_class("CvtToBinary")
    src = program.find_command_class("EEMSRead")("src0", [], program=program, lineno=1)
    src.is_finished = True
    import numpy
    src._result = numpy.ma.array([1.0, 2.0, 3.0])
    program.commands["src0"] = src
    args = [Argument("InFieldName", "src0", cline + 1), Argument("Threshold", 2, cline + 2),
            Argument("Direction", "LowToHigh", cline + 3)]
    if kind == "undeclared":
        args.append(Argument("Bogus", 1, aline))
        want, lines = "NoSuchParameter", {aline}
    elif kind == "missing":
        args = args[:2]
        want, lines = "MissingParameters", {cline}
    else:
        args[1] = Argument("Threshold", "abc", aline)
        want, lines = "ParameterNotValid", {aline}
    cmd = cls("X", args, program=program, lineno=cline)
    program.commands["X"] = cmd
    exc = None
    try:
        cmd.run()
    except SimAbort:
        raise
    except Exception as e:  # noqa
        exc = e
    log.emit("direct", kind=kind, exc=type(exc).__name__ if exc else None)
    res.probe("directly constructed command validated at run time: " + kind)
    if exc is None or not isinstance(exc, MPilotError):
        res.observe("direct command: %s (C12/C13's business)" % (type(exc).__name__ if exc else "accepted"))
        return
    ln = getattr(exc, "lineno", None)
    if type(exc).__name__ != want:
        res.observe("direct command rejected with %s" % type(exc).__name__)
        return
    if ln is None:
        res.violate("C11.error", "C11.error no-lineno direct-%s %s" % (kind, want),
                    "%s from a directly constructed command carries no line (true: %r)" % (want, sorted(lines)))
    elif ln not in lines:
        res.violate("C11.error", "C11.error wrong-lineno direct-%s %s" % (kind, want),
                    "%s from a directly constructed command carries line %r (true: %r)" % (want, ln, sorted(lines)))


def _api_addition(program, nodes, res, log, MPilotError):
    """A command added from Python to a program loaded from a file, with an undeclared parameter that holds a command
    object: the error is about the added command (whose line the caller states), not about the referenced one."""
    ref = next((n["name"] for n in nodes if n.get("name") in program.commands and n["cmd"] not in ("EEMSWrite", "PrintVars")), None)
    cls = program.find_command_class("Copy")
    if ref is None or cls is None:
        return
    stated = 9000 + len(nodes)
    try:
        program.add_command(cls, "zz_added", {"InFieldName": ref, "Bogus": program.commands[ref]}, lineno=stated)
        exc = None
    except SimAbort:
        raise
    except Exception as e:  # noqa
        exc = e
    log.emit("api-addition", exc=type(exc).__name__ if exc else None)
    res.probe("command with an undeclared parameter added through the API to a loaded program")
    if isinstance(exc, MPilotError) and type(exc).__name__ == "NoSuchParameter":
        ln = getattr(exc, "lineno", None)
        if ln is not None and ln != stated:
            res.violate("C11.error", "C11.error wrong-lineno api-addition NoSuchParameter",
                        "NoSuchParameter for a command added with lineno=%d carries line %r (the line of the command the "
                        "parameter refers to?)" % (stated, ln))
    program.commands.pop("zz_added", None)


def _check_command_lines(program, ledger, nodes, doc, res, eol):
    """Every command object of a loaded program carries the line its command starts on."""
    if doc.get("v2_target"):
        return
    bad = []
    for node, led in zip(nodes, ledger):
        cmd = program.commands.get(node["name"]) if node.get("name") else None
        if cmd is None or type(cmd).__name__ != node["cmd"]:
            continue
        if cmd.lineno != led["line"]:
            bad.append("%s = %s: lineno %r, true line %d" % (node["name"], node["cmd"], cmd.lineno, led["line"]))
    res.probe("command objects of a loaded program compared with the true lines")
    if bad:
        extra = any(n["cmd"] == "Passthrough" for n in nodes)
        res.violate("C11.command", "C11.command wrong-lineno %s %s" % ("with-extra-inputs" if extra else "plain", eol),
                    "; ".join(bad[:3]))


def _load(sc, route, doc, text, ledger, nodes, info, log, res, Program, MPilotError):
    from ..simfs import SimFS
    from ..seams import StdCapture

    model = doc["model"]
    fault = doc.get("fault")
    files = {model["table"]["path"]: modelgen.csv_text(model["table"])}
    if doc.get("bad_data") and not fault:
        # a row of the data table is broken: whichever read meets it first reports it - with no line, or with a line of
        # a read command, never with a line of the data file
        rows = files[model["table"]["path"]].split("\n")
        k_ = 1 + (len(nodes) % max(1, len(rows) - 2)) if len(rows) > 2 else 1
        if len(rows) > k_ and rows[k_]:
            rows[k_] = ",".join("n/a" for _ in rows[k_].split(","))
            files[model["table"]["path"]] = "\n".join(rows)
            fault = {"kind": "data-bad-row"}
    eol = "crlf" if doc["layout"].get("eol") == "\r\n" else "lf"
    if route == "CLI":
        files[mf.MODEL_PATH] = text
    fs = SimFS(log, res, files=files, dirs=[mf.WORK])
    exc = None
    code = None
    with fs, StdCapture(log) as cap:
        try:
            if route == "LOAD":
                if doc.get("libs"):
                    program = Program.from_source(text, libraries=C11_LIBS, working_dir=mf.WORK)
                else:
                    program = Program.from_source(text, working_dir=mf.WORK)
                _check_command_lines(program, ledger, nodes, doc, res, eol)
                if not fault and not doc.get("bad_data"):
                    _api_addition(program, nodes, res, log, MPilotError)
                if fault and fault.get("param") == "Metadata" and fault["kind"] == "wrong-kind" and \
                        sum(map(ord, fault["target"])) % 2 == 0:
                    # the client reads the metadata of the command before (instead of) running the program
                    res.probe("metadata read before run()")
                    program.commands[fault["target"]].metadata
                program.run()
            else:
                from mpilot.cli.mpilot import main
                main.main(args=["eems-csv", mf.MODEL_PATH] + (["-l", "mpsim_c11lib"] if doc.get("libs") else []),
                          standalone_mode=False)
        except SimAbort:
            raise
        except SystemExit as e:
            code = e.code
        except Exception as e:  # noqa
            exc = e
    label = fault["kind"] if fault else "none"
    log.emit("load", route=route, fault=label, exc=type(exc).__name__ if exc else None, code=code)
    if not fault:
        res.probe("%s of an unfaulted model" % route)
        return
    if fault["kind"] == "data-bad-row":
        lines_ = set()
        for n_, l_ in zip(nodes, ledger):
            if n_["cmd"] == "EEMSRead":
                lines_ |= set(range(l_["line"], l_["end_line"] + 1))
        al = (lines_, True, "none or a line of a read command %s" % sorted(lines_))
    else:
        al = allowed_lines(doc, ledger, nodes, info)
    if al is None:
        return
    lines, none_ok, desc = al
    res.probe("located fault: " + label)
    if doc.get("v2_target"):
        res.probe("offending command written in EEMS 2.0 form")
    if any(len(a["arglist"]) and a["arglist"][0]["line"] != a["line"] for a in ledger):
        res.probe("arguments on other lines than their command")
    if route == "LOAD":
        if exc is None:
            res.observe("faulted model accepted (C12's business)")
            return
        if not isinstance(exc, MPilotError):
            res.observe("non-MPilot exception (C13's business)")
            return
        ln = getattr(exc, "lineno", None)
        res.state_keys.add(h64(["load", label, eol]))
        if ln is None:
            if not none_ok:
                res.violate("C11.error", "C11.error no-lineno %s %s" % (label, type(exc).__name__),
                            "%s for fault [%s] carries no line (true: %s)" % (type(exc).__name__, label, desc))
        elif ln not in lines:
            res.violate("C11.error", "C11.error wrong-lineno %s %s %s" % (label, type(exc).__name__, eol),
                        "%s for fault [%s] carries line %r (true: %s)" % (type(exc).__name__, label, ln, desc))
        else:
            res.probe("error carried a true line")
        return
    # CLI: the line marked with --> must be the text of an acceptable line
    err = cap.err.getvalue()
    if code in (0, None) and exc is None:
        res.observe("CLI accepted a faulted model (C12's business)")
        return
    if exc is not None:
        res.observe("exception escaped from the CLI (C13's business)")
        return
    m = re.search(r"^--> (.*)$", err, re.M)
    file_lines = text.replace("\r\n", "\n").replace("\r", "\n").split("\n")
    res.state_keys.add(h64(["cli", label, eol]))
    if m is None:
        if not none_ok:
            res.violate("C11.cli", "C11.cli no-marked-line %s" % label,
                        "CLI marked no line for fault [%s] (true: %s); stderr=%r" % (label, desc, err[:200]))
        return
    marked = m.group(1)
    ok_texts = [file_lines[i - 1] for i in lines if 0 < i <= len(file_lines)]
    if marked not in ok_texts:
        res.violate("C11.cli", "C11.cli wrong-marked-line %s %s" % (label, eol),
                    "CLI marked %r for fault [%s]; true: %s = %r" % (marked, label, desc, ok_texts[:3]))
    else:
        res.probe("CLI marked a true line")


def worker_init(scratch):
    from mpilot.program import Program
    Program()


# ------------------------------------------------------------------------------------------------
def shrink_candidates(sc):
    def clone():
        return copy.deepcopy(sc)

    for i in range(len(sc["ops"])):
        if sc["ops"][i][0] == "NEW" and i == 0:
            continue
        c = clone()
        del c["ops"][i]
        yield c
    if len(sc["docs"]) > 1:
        for i in range(len(sc["docs"])):
            c = clone()
            del c["docs"][i]
            for op in c["ops"]:
                if op[0] in ("PARSE", "PARSE_BAD"):
                    op[2] = op[2] % len(c["docs"]) if op[2] < i else max(0, op[2] - 1) % len(c["docs"])
                elif op[0] in ("LOAD", "CLI"):
                    op[1] = op[1] % len(c["docs"]) if op[1] < i else max(0, op[1] - 1) % len(c["docs"])
            yield c
    for i, d in enumerate(sc["docs"]):
        lay = d.get("layout") or {}
        for key in ("blank", "comment", "trail_cmt", "arg_nl", "val_nl", "list_nl", "trail_comma", "space", "quote",
                    "lead", "exotic_cmt"):
            if lay.get(key):
                c = clone()
                c["docs"][i]["layout"][key] = 0 if key == "lead" else 0.0
                yield c
        if lay.get("eol") == "\r\n":
            c = clone()
            c["docs"][i]["layout"]["eol"] = "\n"
            yield c
        if d["kind"] == "free":
            prog = d["program"]
            if len(prog) > 1:
                for j in range(len(prog)):
                    c = clone()
                    del c["docs"][i]["program"][j]
                    yield c
            for j, cmd in enumerate(prog):
                for a in range(len(cmd["args"])):
                    c = clone()
                    del c["docs"][i]["program"][j]["args"][a]
                    yield c
                for a, (nm, v) in enumerate(cmd["args"]):
                    if isinstance(v, (list, dict)):
                        c = clone()
                        c["docs"][i]["program"][j]["args"][a][1] = 1
                        yield c
        else:
            keep = set()
            f = d.get("fault")
            if f:
                keep.update(x for x in (f.get("target"), f.get("producer")) if x)
            cmds = d["model"]["cmds"]
            used = set()
            for cm in cmds:
                used.update(eems.refs_of(cm))
            for j in reversed(range(len(cmds))):
                if cmds[j]["name"] in used or cmds[j]["name"] in keep or len(cmds) <= 1:
                    continue
                c = clone()
                del c["docs"][i]["model"]["cmds"][j]
                c["docs"][i]["order"] = [x - (1 if x > j else 0) for x in c["docs"][i]["order"] if x != j]
                yield c
            if d.get("order") != sorted(d.get("order", [])):
                c = clone()
                c["docs"][i]["order"] = sorted(d["order"])
                yield c


def sample(sc):
    out = {"history": [op[:4] if op[0] == "PARSE" else op[:3] for op in sc["ops"]], "documents": []}
    for d in sc["docs"][:2]:
        try:
            text, ledger, nodes, info = doc_text(d)
        except ValueError:
            text = "<unrenderable>"
        out["documents"].append({"kind": d["kind"], "eol": "CRLF" if d["layout"].get("eol") == "\r\n" else "LF",
                                 "fault": (d.get("fault") or {}).get("kind"), "text": text[:1200]})
    return out


RULES = {
    "C11": "Each case = a history of 3-11 operations (NEW parser, PARSE / PARSE_BAD on a chosen live Parser object, "
           "LOAD through from_source+run, CLI run on the simulated disk) over 1-4 documents rendered with seeded blank "
           "lines, comment lines, trailing comments, multi-line arguments/lists, LF or CRLF; model documents carry one "
           "located fault (load-time, validation or execute-time) whose line is known from the renderer's ledger. "
           "Distinct = distinct hash of (history, layouts, fault kinds); non-trivial = at least three operations.",
}
ASSUMPTIONS = {
    "C11": [
        "the command head `Result = Command(` and `name =` are rendered on one line each; CR-only line endings are not "
        "generated; tuple (metadata) pairs are not checked",
        "an error about an argument may carry any line from the argument's name to the end of its value (scalars carry "
        "the name's line, lists the line of '['): both are lines of the offending argument",
        "execute-time errors may carry no line; if they carry one it must lie inside the failing command",
        "the PLY table-cache knob of DESIGN.md was not built (tables are loaded from the scratch copy)",
    ],
}
COMPONENTS = {
    "real": ["mpilot.parser (PLY lexer/parser, Parser objects reused across operations)", "mpilot.program",
             "mpilot.commands", "mpilot.params", "mpilot.libraries.eems", "mpilot.cli.mpilot.main (in-process)"],
    "stub": ["file system: SimFS"],
}


STATE_MEASURE = {'C11': 'abstract state = (parser history class: first / after earlier parse / after failed parse, line ending, fault kind x route); schedule key = operation sequence'}
