"""modelsim - the whole pipeline under simulation: SimFS table -> rendered command file -> Parser ->
from_source -> run() (or the CLI main in-process) -> results / written files / streams.

Modes: clean (C02: refinement against the reference interpreter under many evaluation schedules),
located single fault (C12), chaos (C13).  Real: parser, loader, params, commands, libraries, CLI, csv,
numpy.  Stub: file system (SimFS) and environment actor.
"""
from __future__ import annotations

import copy
import random

from ..core import EventLog, RunResult, SimAbort, h64
from ..render import render, random_layout, PLAIN
from ..seams import ExecMonitor, Hygiene, StdCapture, exc_chain, innermost_frame
from ..simfs import SimFS
from .. import modelgen
from ..refmodel import eems
from ..refmodel.declarations import V2_NAMES, table as decl_table

ENGINE = "modelsim"
BUDGET = {
    "C02": {"quick": 8000, "thorough": 80000},
    "C12": {"quick": 14875, "thorough": 340000},
    "C13": {"quick": 20000, "thorough": 300000},
}
DECL = decl_table("csv")
TOL = 1e-9


# ------------------------------------------------------------------------------------------------
# building the command file of one schedule
# ------------------------------------------------------------------------------------------------
def program_nodes(cmds, order=None, argseed=0, v2=(), meta=None):
    """Abstract program (for the renderer) of the commands in the given textual order."""
    meta = meta or {}
    order = list(range(len(cmds))) if order is None else order
    rng = random.Random("args:%d" % argseed)
    nodes = []
    for i in order:
        c = cmds[i]
        # canonical base order (never the dict's own order: a replay file does not preserve it)
        decl = list(DECL.get(c["cmd"], {}).get("params", {}))
        items = [[k, v] for k, v in sorted(c["args"].items(),
                                           key=lambda kv: (decl.index(kv[0]) if kv[0] in decl else 99, kv[0]))]
        if argseed:
            rng.shuffle(items)
        if c["name"] in meta:
            items.append(["Metadata", dict(meta[c["name"]])])
        if c["name"] in v2 and c["cmd"] in V2_NAMES:
            items.append(["NewFieldName", c["name"]])
            nodes.append({"result": None, "cmd": V2_NAMES[c["cmd"]], "args": items, "name": c["name"]})
        else:
            nodes.append({"result": c["name"], "cmd": c["cmd"], "args": items, "name": c["name"]})
    return nodes


def extract(arr):
    """(kind, shape, mask list, value list, bytes key) of a command result."""
    import numpy

    if not isinstance(arr, numpy.ndarray):
        return {"kind": type(arr).__name__, "shape": None, "mask": None, "vals": None, "key": repr(arr)}
    mask = numpy.ma.getmaskarray(arr)
    data = numpy.ma.getdata(arr)
    flat_m = [bool(x) for x in mask.ravel()]
    flat_d = data.ravel()
    vals = []
    for m, x in zip(flat_m, flat_d):
        vals.append(None if m else float(x))
    key = (arr.shape, str(data.dtype), bytes(mask.tobytes()),
           tuple(None if m else x.tobytes() for m, x in zip(flat_m, flat_d)))
    return {"kind": "array", "shape": list(arr.shape), "mask": flat_m, "vals": vals, "key": key,
            "dtype": str(data.dtype), "masked_type": isinstance(arr, numpy.ma.MaskedArray)}


def compare_cell(impl, ref):
    """None if equal within tolerance else a description."""
    if ref is eems.UNST:
        return None
    if ref is None:
        return None if impl is None else "mask: cell should be missing, got %r" % (impl,)
    if impl is None:
        return "mask: cell should be %s, is missing" % float(ref)
    if impl != impl or impl in (float("inf"), float("-inf")):
        return "value: %r instead of %s" % (impl, float(ref))
    r = float(ref)
    if abs(impl - r) <= TOL * max(1.0, abs(r)):
        return None
    return "value: %r instead of %r" % (impl, r)


def ref_flags(cmd, env, dtypes):
    """Input classes of a command, for narrow violation signatures."""
    flags = []
    refs = eems.refs_of(cmd)
    if any(any(v is None for v in env[r].vals) for r in refs if r in env):
        flags.append("missing-cells")
    if any(dtypes.get(r) == "int" for r in refs):
        flags.append("int-input")
    return flags


def ref_dtypes(cmds, table):
    cols = {c["name"]: c for c in table["columns"]}
    dt = {}
    for c in cmds:
        if c["cmd"] == "EEMSRead":
            dt[c["name"]] = "int" if c["args"].get("DataType") == "Integer" else "float"
        elif c["cmd"] in ("Copy", "Sum", "Multiply", "Minimum", "Maximum", "AMinusB"):
            refs = eems.refs_of(c)
            dt[c["name"]] = "int" if refs and all(dt.get(r) == "int" for r in refs) else "float"
        else:
            dt[c["name"]] = "float"
    return dt


# ------------------------------------------------------------------------------------------------
# C02 generation
# ------------------------------------------------------------------------------------------------
def _topo_positions(cmds):
    return {c["name"]: i for i, c in enumerate(cmds)}


def _gen_extras(rng, model, env):
    """0-3 extra consumers attached to random intermediates (must not change anything else)."""
    cmds = model["cmds"]
    extras = []
    for k in range(rng.choice([0, 0, 1, 2, 3])):
        tgt = rng.choice(cmds)
        res = env.get(tgt["name"])
        if res is None:
            continue
        name = "x%d" % k
        kind = rng.random()
        if kind < 0.3:
            extras.append({"name": name, "cmd": "Copy", "args": {"InFieldName": tgt["name"]}})
        elif kind < 0.45:
            extras.append({"name": name, "cmd": "PrintVars", "args": {"InFieldNames": [tgt["name"]],
                                                                        "OutFileName": "extra%d.txt" % k}})
        elif kind < 0.55:
            extras.append({"name": name, "cmd": "EEMSWrite", "args": {"OutFieldNames": [tgt["name"]],
                                                                        "OutFileName": "extra%d.csv" % k}})
        elif res.fuzzy:
            cmd = rng.choice(["FuzzyNot", "FuzzyOr", "FuzzyAnd", "FuzzyUnion"])
            extras.append({"name": name, "cmd": cmd, "args": (
                {"InFieldName": tgt["name"]} if cmd == "FuzzyNot" else {"InFieldNames": [tgt["name"]]})})
        else:
            cmd = rng.choice(["Sum", "Minimum", "Maximum", "Mean", "Multiply"])
            n = rng.choice([1, 1, 2])
            extras.append({"name": name, "cmd": cmd, "args": {"InFieldNames": [tgt["name"]] * n}})
    return extras


def _gen_schedule(rng, model, env, kind, allow_v2=True):
    cmds = model["cmds"]
    extras = _gen_extras(rng, model, env) if kind != "plain" else []
    allc = cmds + extras
    n = len(allc)
    if kind in ("plain", "topo"):
        order = list(range(n))
    elif kind == "reverse":
        order = list(reversed(range(n)))
    else:
        order = list(range(n))
        rng.shuffle(order)
    names = [c["name"] for c in cmds]
    r = rng.random()
    if kind == "plain" or r < 0.4:
        hist = [["RUN"]]
    elif r < 0.7:
        hist = [["GET", rng.choice(names)] for _ in range(rng.randint(1, 3))] + [["RUN"]]
    elif r < 0.85:
        sh = list(names)
        rng.shuffle(sh)
        hist = [["GET", x] for x in sh]
    else:
        hist = [["RUN"], ["GET", rng.choice(names)], ["RUN"]]
    meta = {}
    if kind != "plain":
        for c in allc:
            if rng.random() < 0.15:
                # the grammar lets a metadata value be a number as well as a string (seeded change C13-i1)
                meta[c["name"]] = {"DisplayName": "the " + c["name"], "Color": "Blue", "Year": 2020, "Weight": 0.25}
    v2 = []
    if allow_v2 and kind != "plain" and rng.random() < 0.15:
        # OutFileName arguments are dropped by the 2.0 translation, so only use it without file-writing extras
        if not any("OutFileName" in c["args"] for c in allc):
            v2 = [c["name"] for c in allc if c["cmd"] in V2_NAMES and rng.random() < 0.5]
    return {
        "kind": kind, "extras": extras, "order": order,
        "layout": dict(PLAIN) if kind == "plain" else random_layout(rng, wild=rng.random() < 0.6),
        "argseed": 0 if kind == "plain" else rng.randrange(1, 1 << 20),
        "history": hist, "meta": meta, "v2": v2,
        # the first attempt meets a data file with a broken row; the file is then repaired and the same program goes on
        "bad_first": kind != "plain" and rng.random() < 0.12,
    }


def generate(prop, rng, index, tier):
    if prop == "C02":
        return _generate_c02(rng, index, tier)
    from . import modelsim_faults
    return modelsim_faults.generate(prop, rng, index, tier)


def _rename_result(model, old, new):
    def sub(v):
        if isinstance(v, list):
            return [sub(x) for x in v]
        return new if v == old else v
    for c in model["cmds"]:
        if c["name"] == old:
            c["name"] = new
        for k in list(c["args"]):
            if k in ("InFieldName", "InFieldNames", "A", "B", "OutFieldNames") and not (c["cmd"] == "EEMSRead" and k == "InFieldName"):
                c["args"][k] = sub(c["args"][k])


def _generate_c02(rng, index, tier):
    knob = index % 4
    ints = {0: False, 1: None, 2: None, 3: True}[knob] if rng.random() < 0.8 else None
    missing = {0: False, 1: False, 2: True, 3: None}[knob] if rng.random() < 0.8 else None
    model = modelgen.gen_model(rng, tier, ints=ints, missing=missing)
    if rng.random() < 0.15:
        # result names that differ only in case are different results
        cands = [c["name"] for c in model["cmds"] if c["cmd"] not in ("EEMSWrite", "PrintVars")]
        if len(cands) >= 2:
            for old, new in zip(rng.sample(cands, 2), ("Slope", "slope")):
                _rename_result(model, old, new)
    env = eems.run_model(model["table"], model["cmds"])
    kinds = ["topo", "reverse"] + [rng.choice(["random", "random", "topo", "reverse"])
                                   for _ in range(rng.randint(1, 4 if tier == "quick" else 6))]
    scheds = [_gen_schedule(rng, model, env, k) for k in kinds]
    for s in scheds:
        s["layout"]["eol"] = "\n"
    return {"engine": ENGINE, "prop": "C02", "mode": "clean", "model": model, "schedules": scheds,
            "knobs": {"ints": ints, "missing": missing}}


# ------------------------------------------------------------------------------------------------
# execution
# ------------------------------------------------------------------------------------------------
def run_schedule(model, sched, log, res, want_results=True):
    """Run one schedule of a model through the real pipeline. Returns dict with results / error."""
    from mpilot.program import Program

    cmds = model["cmds"] + sched.get("extras", [])
    nodes = program_nodes(cmds, sched.get("order"), sched.get("argseed", 0), sched.get("v2", ()), sched.get("meta"))
    text, ledger = render(nodes, sched.get("layout") or PLAIN)
    files = {model["table"]["path"]: modelgen.csv_text(model["table"])}
    fs = SimFS(log, res, files=files, dirs=[modelgen.WORK])
    out = {"text": text, "ledger": ledger, "nodes": nodes, "results": {}, "error": None, "fs": fs}
    def runaway(key, depth):
        res.violate("C02.runaway", "C02.runaway unbounded-nesting",
                    "execute nesting reached %d in a model of %d commands (command %s)" % (depth, len(cmds), key))

    mon = ExecMonitor(log, nesting_cap=len(cmds) + 3, on_runaway=runaway)
    out["monitor"] = mon
    log.emit("schedule", kind=sched.get("kind"), order=sched.get("order"), history=sched.get("history"))
    with fs, StdCapture(log) as cap:
        out["cap"] = cap
        try:
            program = Program.from_source(text, working_dir=model.get("working_dir", modelgen.WORK))
            out["program"] = program
            mon.install(list(program.command_library.values()))
            if sched.get("bad_first"):
                import posixpath
                path = posixpath.normpath(model["table"]["path"])
                good = fs.files.get(path)
                rows = good.decode("utf-8").split("\n") if good else []
                if len(rows) >= 2 and rows[1]:
                    rows[1] = ",".join("n/a" for _ in rows[1].split(","))
                    fs.files[path] = "\n".join(rows).encode("utf-8")
                    fs.touch(path)
                    log.emit("actor", do="break-row", path=path)
                    try:
                        program.run()
                        log.emit("bad-first", outcome="ran")
                    except SimAbort:
                        raise
                    except Exception as exc:  # noqa
                        log.emit("bad-first", outcome=type(exc).__name__)
                        res.probe("first run failed on a broken data row, the file was then repaired")
                    fs.files[path] = good
                    fs.touch(path)
                    log.emit("actor", do="repair", path=path)
                    res.fired("actor-break-then-repair-input")
            for op in sched.get("history") or [["RUN"]]:
                log.emit("op-begin", op=op)
                if op[0] == "RUN":
                    program.run()
                elif op[0] == "GET":
                    program.commands[op[1]].result
                log.emit("op-end", op=op)
            if want_results:
                for c in model["cmds"]:
                    if c["cmd"] in ("EEMSWrite", "PrintVars"):
                        continue
                    out["results"][c["name"]] = extract(program.commands[c["name"]].result)
        except SimAbort:
            out["aborted"] = True
            log.emit("pipeline-abort")
        except Exception as exc:
            out["error"] = exc
            log.emit("pipeline-raise", exc=type(exc).__name__)
        finally:
            mon.uninstall()
    return out


def line_to_command(ledger, nodes, lineno):
    if lineno is None:
        return None
    for led, node in zip(ledger, nodes):
        if led["line"] <= lineno <= led["end_line"]:
            return node
    return None


def describe_error(exc, out):
    """(failing command node or None, exception label)"""
    label = type(exc).__name__
    inner = getattr(exc, "exc", None)
    if isinstance(inner, BaseException):
        label += ":" + type(inner).__name__
    node = line_to_command(out["ledger"], out["nodes"], getattr(exc, "lineno", None))
    return node, label


def _short_exc(exc):
    inner = getattr(exc, "exc", None)
    if isinstance(inner, BaseException):
        return "%s wrapping %s(%s)" % (type(exc).__name__, type(inner).__name__, str(inner)[:160])
    return "%s(%s)" % (type(exc).__name__, str(exc)[:200].replace("\n", " | "))


def execute(sc):
    if sc.get("mode") != "clean":
        from . import modelsim_faults
        return modelsim_faults.execute(sc)
    res = RunResult()
    model = sc["model"]
    cmds = model["cmds"]
    log = EventLog(cap=400 * (len(cmds) + 8) * max(1, len(sc["schedules"])) + 1000)
    res.log = log
    log.emit("scenario", prop="C02", ncmds=len(cmds), nsched=len(sc["schedules"]))
    try:
        env, n_unst = eems.run_model_conditioned(model["table"], cmds)
    except eems.Precondition as exc:
        # a shrunk scenario may leave the documented domain: not a case, not a violation
        res.observe("scenario outside the documented domain: %s" % exc)
        log.emit("invalid-scenario", why=str(exc))
        return res
    dtypes = ref_dtypes(cmds, model["table"])
    by_name = {c["name"]: c for c in cmds}
    if n_unst:
        res.probe("unstable (ill-conditioned or boundary) cells excluded", n_unst)
    keys = {}
    with Hygiene():
        for si, sched in enumerate(sc["schedules"]):
            out = run_schedule(model, sched, log, res)
            order = [ev[1]["cmd"] for ev in log.events if ev[0] == "exec-enter"]
            res.state_keys.add(h64([si, order[-len(cmds):]]))
            if out.get("aborted"):
                continue
            if out["error"] is not None:
                node, label = describe_error(out["error"], out)
                cname = node["name"] if node else None
                c = by_name.get(cname)
                flags = ref_flags(c, env, dtypes) if c else []
                who = c["cmd"] if c else (node["cmd"] if node else "?")
                frame = innermost_frame(out["error"])
                res.violate("C02.error", " ".join(["C02.error", who, label]),
                            "schedule %d (%s): a well-typed model failed at command %s (%s) [inputs: %s] with %s"
                            % (si, sched.get("kind"), cname, frame, ",".join(flags) or "float, no missing cells",
                               _short_exc(out["error"])))
                continue
            # ---- refinement: first deviating command in topological order ----------------------------
            ok_names = set()
            for c in cmds:
                if c["cmd"] in ("EEMSWrite", "PrintVars"):
                    continue
                name = c["name"]
                got = out["results"].get(name)
                ref = env[name]
                why = None
                if got is None or got["kind"] != "array":
                    why = "type: result is %s" % (got["kind"] if got else "absent")
                elif got["shape"] != [len(ref.vals)]:
                    why = "shape: %r instead of [%d]" % (got["shape"], len(ref.vals))
                else:
                    for j, (iv, rv) in enumerate(zip(got["vals"], ref.vals)):
                        d = compare_cell(iv, rv)
                        if d:
                            why = "cell %d %s" % (j, d)
                            break
                if why is None:
                    ok_names.add(name)
                    continue
                if all(r in ok_names for r in eems.refs_of(c)):
                    kind = why.split(":")[0].split()[-1]
                    flags = ref_flags(c, env, dtypes)
                    res.violate("C02.refine", " ".join(["C02.refine", c["cmd"], kind]),
                                "schedule %d (%s): %s = %s(...) deviates from the reference: %s [inputs: %s]"
                                % (si, sched.get("kind"), name, c["cmd"], why,
                                   ",".join(flags) or "float, no missing cells"))
                    break
            # ---- order independence: bit-for-bit equality across schedules -----------------------------
            for name, got in out["results"].items():
                k = got["key"]
                if name in keys and keys[name][1] != k:
                    res.violate("C02.order", "C02.order " + by_name[name]["cmd"],
                                "%s differs bit-for-bit between schedule %d and schedule %d"
                                % (name, keys[name][0], si))
                    break
                keys.setdefault(name, (si, k))
            _probes_c02(res, sched, model, out)
    res.case_key = h64([model["cmds"], model["table"]["columns"]])
    res.schedule_key = h64([[s.get("order"), s.get("history")] for s in sc["schedules"]])
    res.nontrivial = sum(1 for c in cmds if c["cmd"] != "EEMSRead") >= 2
    if any(c["type"] == "Integer" for c in model["table"]["columns"]):
        res.probe("integer column")
    if any(c["missing"] is not None and c["missing"] in c["values"] for c in model["table"]["columns"]):
        res.probe("missing cells in the table")
    reads = [(c["args"].get("InFieldName")) for c in cmds if c["cmd"] == "EEMSRead"]
    if len(reads) != len(set(reads)):
        res.probe("same column read more than once with different options")
    depth = {}
    for c in cmds:
        depth[c["name"]] = 1 + max([depth.get(r, 0) for r in eems.refs_of(c)] or [0])
    if max(depth.values()) >= 4:
        res.probe("dependency depth >= 4")
    fan = {}
    for c in cmds:
        for r in set(eems.refs_of(c)):
            fan[r] = fan.get(r, 0) + 1
    if any(v >= 2 for v in fan.values()):
        res.probe("intermediate result shared by >= 2 consumers")
    if any(isinstance(c["args"].get("InFieldNames"), list) and len(c["args"]["InFieldNames"]) == 1 for c in cmds):
        res.probe("single-input n-ary consumer")
    return res


def _probes_c02(res, sched, model, out):
    pos = {n["name"]: i for i, n in enumerate(out["nodes"])}
    for c in model["cmds"]:
        for r in eems.refs_of(c):
            if pos.get(r, -1) > pos.get(c["name"], -1):
                res.probe("consumer precedes producer in the file (forward reference)")
                break
    if sched.get("extras"):
        res.probe("extra consumers attached to intermediates")
    if sched.get("meta"):
        res.probe("metadata attached")
    if sched.get("v2"):
        res.probe("EEMS 2.0 dialect used for some commands")
    if not any(op[0] == "RUN" for op in sched.get("history", [])):
        res.probe("results pulled by the client only, run() never called")
    elif sched["history"][0][0] == "GET":
        res.probe("client pulls results before run()")
    if sched["layout"].get("arg_nl") or sched["layout"].get("list_nl"):
        res.probe("multi-line arguments")


# ------------------------------------------------------------------------------------------------
# shrinking
# ------------------------------------------------------------------------------------------------
def _referenced(cmds, extras=()):
    used = set()
    for c in list(cmds) + list(extras):
        used.update(eems.refs_of(c))
    return used


def _fix_orders(sc):
    n_base = len(sc["model"]["cmds"])
    for s in sc["schedules"]:
        n = n_base + len(s.get("extras", []))
        order = [i for i in s.get("order", []) if i < n]
        for i in range(n):
            if i not in order:
                order.append(i)
        s["order"] = order
        names = {c["name"] for c in sc["model"]["cmds"]}
        s["history"] = [op for op in s.get("history", [["RUN"]]) if len(op) == 1 or op[1] in names] or [["RUN"]]
        s["meta"] = {k: v for k, v in s.get("meta", {}).items() if k in names or any(e["name"] == k for e in s.get("extras", []))}
        s["v2"] = [x for x in s.get("v2", []) if x in names]
        s["extras"] = [e for e in s.get("extras", []) if all(r in names for r in eems.refs_of(e))]
    return sc


def shrink_candidates(sc):
    if sc.get("mode") != "clean":
        from . import modelsim_faults
        for c in modelsim_faults.shrink_candidates(sc):
            yield c
        return

    def clone():
        return copy.deepcopy(sc)

    # fewer schedules
    if len(sc["schedules"]) > 1:
        for i in range(len(sc["schedules"])):
            c = clone()
            del c["schedules"][i]
            yield c
    # simpler schedules
    for i, s in enumerate(sc["schedules"]):
        if s.get("extras"):
            c = clone()
            c["schedules"][i]["extras"] = []
            yield _fix_orders(c)
        if s.get("meta"):
            c = clone()
            c["schedules"][i]["meta"] = {}
            yield c
        if s.get("v2"):
            c = clone()
            c["schedules"][i]["v2"] = []
            yield c
        if s.get("history") != [["RUN"]]:
            c = clone()
            c["schedules"][i]["history"] = [["RUN"]]
            yield c
        if s.get("layout") != PLAIN:
            c = clone()
            c["schedules"][i]["layout"] = dict(PLAIN)
            yield c
        if s.get("argseed"):
            c = clone()
            c["schedules"][i]["argseed"] = 0
            yield c
        if s.get("order") != sorted(s.get("order", [])):
            c = clone()
            c["schedules"][i]["order"] = sorted(s["order"])
            yield c
    # drop unreferenced commands (sinks first)
    cmds = sc["model"]["cmds"]
    used = _referenced(cmds)
    for i in reversed(range(len(cmds))):
        if cmds[i]["name"] not in used and len(cmds) > 1:
            c = clone()
            del c["model"]["cmds"][i]
            for s in c["schedules"]:
                s["order"] = [j - (1 if j > i else 0) for j in s["order"] if j != i]
            yield _fix_orders(c)
    # bypass a command: consumers use its first input instead
    for i, cm in enumerate(cmds):
        refs = eems.refs_of(cm)
        if cm["cmd"] == "EEMSRead" or not refs:
            continue
        c = clone()
        tgt, repl = cm["name"], refs[0]
        for other in c["model"]["cmds"]:
            for p in eems.REF_PARAMS:
                v = other["args"].get(p)
                if isinstance(v, list):
                    other["args"][p] = [repl if x == tgt else x for x in v]
                elif v == tgt:
                    other["args"][p] = repl
        del c["model"]["cmds"][i]
        for s in c["schedules"]:
            s["order"] = [j - (1 if j > i else 0) for j in s["order"] if j != i]
        yield _fix_orders(c)
    # shorter input lists
    for i, cm in enumerate(cmds):
        v = cm["args"].get("InFieldNames")
        if isinstance(v, list) and len(v) > 1:
            for j in range(len(v)):
                c = clone()
                a = c["model"]["cmds"][i]["args"]
                del a["InFieldNames"][j]
                if "Weights" in a and len(a["Weights"]) > j:
                    del a["Weights"][j]
                if "NumberToConsider" in a:
                    a["NumberToConsider"] = min(a["NumberToConsider"], len(a["InFieldNames"]))
                yield c
    # fewer rows / columns
    cols = sc["model"]["table"]["columns"]
    nrows = len(cols[0]["values"])
    if nrows > 2:
        for r in range(nrows):
            c = clone()
            for col in c["model"]["table"]["columns"]:
                del col["values"][r]
            c["model"]["table"]["blank_after_rows"] = []
            yield c
    used_cols = {cm["args"]["InFieldName"] for cm in cmds if cm["cmd"] == "EEMSRead"}
    for i, col in enumerate(cols):
        if col["name"] not in used_cols and len(cols) > 1:
            c = clone()
            del c["model"]["table"]["columns"][i]
            yield c
    if sc["model"]["table"].get("blank_after_rows"):
        c = clone()
        c["model"]["table"]["blank_after_rows"] = []
        yield c
    # simpler cell values
    for i, col in enumerate(cols):
        for r, v in enumerate(col["values"]):
            if v not in (0, 1, col.get("missing")):
                for nv in (0, 1):
                    c = clone()
                    c["model"]["table"]["columns"][i]["values"][r] = nv if col["type"] == "Integer" else float(nv)
                    yield c


def sample(sc):
    if sc.get("mode") != "clean":
        from . import modelsim_faults
        return modelsim_faults.sample(sc)
    m = sc["model"]
    s0 = sc["schedules"][-1]
    nodes = program_nodes(m["cmds"] + s0.get("extras", []), s0.get("order"), s0.get("argseed", 0), s0.get("v2", ()),
                          s0.get("meta"))
    text, _ = render(nodes, s0.get("layout") or PLAIN)
    return {"table_csv": modelgen.csv_text(m["table"]), "n_schedules": len(sc["schedules"]),
            "schedule_kinds": [s["kind"] for s in sc["schedules"]],
            "last_schedule_history": s0.get("history"), "last_schedule_command_file": text}


def worker_init(scratch):
    # load the built-in libraries once so that their command classes are registered before any CLI run
    from mpilot.program import Program
    Program()


RULES = {
    "C12": "Each case = a valid generated EEMS model that ends in PrintVars + EEMSWrite (side effects pending) with "
           "exactly one located fault taken from the stratified matrix (run i takes matrix cell i mod |matrix|: every "
           "built-in command x {unknown command, duplicate result, each required parameter removed, undeclared "
           "parameter, wrong value kind per parameter kind, producer of the wrong output kind, fuzzy/non-fuzzy swap}), "
           "at a seeded position and textual order, through the library route and (30%) the in-process CLI; 8% are "
           "unfaulted twins (the accepted side). Distinct = distinct hash of (matrix cell, command classes of the "
           "model, fault label).",
    "C13": "Each case = a valid generated EEMS model with sinks plus 0-2 faults chosen swarm-style from: token/byte "
           "corruption of the command text (18 operators), CSV content faults (16), kind confusion over the extended "
           "command x parameter matrix (stratified), SimFS errors at open/read/write/close/exists, environment-actor "
           "steps between two file-system calls of the run, exceptions raised inside execute; library route always, "
           "CLI route in addition for a third of the runs (plus NetCDF missing-variable and duplicate-library CLI "
           "runs). Distinct = distinct hash of (command classes, faults).",
    "C02": "Each case = one well-typed EEMS model (typed random DAG over all 32 built-in data commands on a CSV table "
           "on the simulated disk; float/integer columns, with/without missing cells) executed under 3-8 evaluation "
           "schedules (topological, reverse and random textual orders, argument order, client histories that pull "
           "results before/instead of run(), extra consumers on intermediates, metadata, EEMS 2.0 dialect, layout). "
           "Every result of every schedule is compared with an exact-arithmetic reference interpreter and bit-for-bit "
           "with the other schedules. Distinct = distinct hash of (commands, table); non-trivial = at least two "
           "non-read commands.",
}
ASSUMPTIONS = {
    "C12": [
        "acceptance predicate = declaration table written from the documentation and the property statement "
        "(/verif/mpsim/refmodel/declarations.py); string parameters are not given wrong kinds",
        "the error must be of the documented class and its offender attribute (name/result/parameter/value/path) must "
        "identify the injected fault; line numbers are C11's business",
        "side effects are read off the event trace up to the moment the rejection propagates: execute entries, "
        "write-opens on SimFS, stdout writes, file changes",
    ],
    "C13": [
        "KeyboardInterrupt/SystemExit are not injected; the CLI is judged only when the library route ends in an "
        "MPilotError (the statement is silent on how the CLI presents a SyntaxError)",
        "faults on the model file itself (cannot be read) are outside the statement",
    ],
    "C02": [
        "reference semantics per DESIGN.md Appendix A; the MeanToMid family follows the construction the code "
        "implements (regression oracle, not independent)",
        "cells whose reference value is ill-conditioned (moves by more than 1e-10 relative under a 1.1e-13 relative "
        "perturbation of every intermediate) or sits on a discontinuity boundary are excluded and counted",
        "NormalizeZScore is always given explicit thresholds (documentation and code disagree on the defaults)",
        "breadth of tables and parameter values is sampled; the in-family claim is independence from evaluation order, "
        "sharing, metadata and client history",
    ],
}
COMPONENTS = {
    "real": ["mpilot.parser", "mpilot.program (from_source, run)", "mpilot.commands", "mpilot.params",
             "mpilot.libraries.eems.basic/fuzzy/csv", "mpilot.utils", "csv", "numpy"],
    "stub": ["file system: SimFS behind builtins.open / os.path.exists", "environment actor"],
}
EXPECTED_PROBES = {}


STATE_MEASURE = {'C02': "abstract state = (schedule index, order of the execute entries of that schedule); schedule key = (textual orders, client histories) of the model's schedules", 'C12': 'abstract state = (fault label, outcome); schedule key = (textual order, fault label)', 'C13': 'abstract state = (route, outcome class, exception type); schedule key = (textual order, fault sequence)'}
