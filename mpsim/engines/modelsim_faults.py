"""modelsim fault modes: located single fault (C12) and chaos (C13)."""
from __future__ import annotations

import copy
import re

from ..core import EventLog, RunResult, SimAbort, h64
from ..render import render, random_layout, PLAIN
from ..seams import ExecMonitor, Hygiene, StdCapture, innermost_frame
from ..simfs import SimFS
from .. import modelgen
from ..refmodel import eems
from ..refmodel.declarations import table as decl_table

DECL = decl_table("csv")
WORK = modelgen.WORK
MODEL_PATH = WORK + "/model.mpt"

# ------------------------------------------------------------------------------------------------
# the fault matrix
# ------------------------------------------------------------------------------------------------
WRONG12 = {
    "number": [("str", "abc"), ("list", [1, 2]), ("tuple", {"K": "v"}), ("bool-word", True)],
    "numbers": [("scalar-number", 3), ("scalar-str", "abc"), ("tuple", {"K": "v"}), ("item-str", "$ITEM:abc"),
                ("item-bool-word", "$ITEM:True")],
    "result": [("number", 5), ("list", ["$REF"]), ("unknown", "nosuch")],
    "results": [("scalar", "$REF"), ("tuple", {"K": "v"}), ("item-unknown", "$ITEM:nosuch"), ("item-number", "$ITEM:7")],
    "bool": [("str", "maybe"), ("list", [1])],
    "datatype": [("unknown", "Complex"), ("number", 5), ("list", ["Float"])],
    "tuple": [("scalar", "x"), ("list", [1, 2]), ("zero", 0), ("empty-str", "")],   # falsy wrong kinds: seeded change C12-i1
    "path_in": [("missing-file", "nofile.csv"), ("relative-no-wd", "in.csv")],
    "path_out": [("relative-no-wd", "out2.csv")],
    "string": [("list", ["a", "b"]), ("tuple", {"K": "v"})],
}
# kinds that only the chaos mode uses (the statement of C12 does not list them)
WRONG13_EXTRA = {
    "number": [("nested-list", [[1], [2, [3]]]), ("empty-list", []), ("inf-word", "inf"),
               ("nan-word", "nan"), ("infinity-word", "Infinity"), ("huge-decimal", "$RAW:1" + "0" * 400 + ".0")],
    "numbers": [("nested-list", [[1, 2], [3]]), ("item-list", "$ITEM:[1]"), ("item-tuple", "$ITEM:{}")],
    "result": [("tuple", {"K": "v"}), ("nested-list", [["$REF"]]), ("float", 0.5)],
    "results": [("nested-list", [["$REF"]]), ("number", 3), ("item-list", "$ITEM:[$REF]")],
    "bool": [("tuple", {"K": "v"}), ("float", 0.5), ("nested-list", [[1]])],
    "datatype": [("tuple", {"K": "v"}), ("nested-list", [["Float"]]), ("float", 0.5)],
    "tuple": [("number", 5), ("nested-list", [[1]]), ("float", 0.5)],
    "path_in": [("number", 5), ("list", ["in.csv"]), ("tuple", {"K": "v"}), ("float", 0.5),
                ("tilde-user", "~nosuchuser_zz/data.csv"), ("tilde", "~/nofile.csv"), ("long-name", "x" * 300 + ".csv"),
                ("dollar", "$HOME/in.csv"), ("percent", "%TEMP%/in.csv")],
    "path_out": [("number", 5), ("list", ["out.csv"]), ("tuple", {"K": "v"}), ("tilde-user", "~nosuchuser_zz/out.csv"),
                 ("long-name", "y" * 300 + ".csv")],
    "string": [("nested-list", [["a"]]), ("number", 5)],
}


def build_matrix(extended=False):
    cells = []
    for cmd in sorted(DECL):
        d = DECL[cmd]
        cells.append({"kind": "unknown-command", "cmd": cmd})
        cells.append({"kind": "duplicate-result", "cmd": cmd})
        cells.append({"kind": "extra-param", "cmd": cmd})
        for pname in sorted(d["params"]):
            p = d["params"][pname]
            if p["required"]:
                cells.append({"kind": "missing-param", "cmd": cmd, "param": pname})
            kinds = list(WRONG12.get(p["kind"], []))
            if extended:
                kinds += WRONG13_EXTRA.get(p["kind"], [])
            for label, val in kinds:
                cells.append({"kind": "wrong-kind", "cmd": cmd, "param": pname, "pkind": p["kind"], "label": label,
                              "value": val})
            if WRONG12.get(p["kind"]) and WRONG12[p["kind"]][0][0] not in ("missing-file", "relative-no-wd", "unknown"):
                # the parameter is given twice: once with a value of the wrong kind, once properly
                label, val = WRONG12[p["kind"]][0]
                cells.append({"kind": "duplicate-param", "cmd": cmd, "param": pname, "pkind": p["kind"], "label": label,
                              "value": val})
            if p["kind"] in ("result", "results") and p.get("data", True):
                cells.append({"kind": "wrong-output-kind", "cmd": cmd, "param": pname, "producer": "pv"})
                cells.append({"kind": "wrong-output-kind", "cmd": cmd, "param": pname, "producer": "out"})
                if p["fz"] is not None:
                    cells.append({"kind": "fuzzy-swap", "cmd": cmd, "param": pname, "needs_fuzzy": p["fz"]})
    from ..refmodel.declarations import FUZZY, NETCDF
    for cmd in sorted(NETCDF):
        d = NETCDF[cmd]
        cells.append({"kind": "extra-param", "cmd": cmd, "config": "netcdf"})
        for pname in sorted(d["params"]):
            p = d["params"][pname]
            if p["required"]:
                cells.append({"kind": "missing-param", "cmd": cmd, "param": pname, "config": "netcdf"})
            kinds = list(WRONG12.get(p["kind"], []))
            if extended:
                kinds += WRONG13_EXTRA.get(p["kind"], [])
            for label, val in kinds:
                if label == "relative-no-wd":
                    continue
                cells.append({"kind": "wrong-kind", "cmd": cmd, "param": pname, "pkind": p["kind"], "label": label,
                              "value": val, "config": "netcdf"})
            if p["kind"] == "results":
                cells.append({"kind": "wrong-output-kind", "cmd": cmd, "param": pname, "producer": "pv", "config": "netcdf"})
    for cmd in sorted(FUZZY):
        # the command exists, but not in the libraries selected for this program (an earlier program of the same
        # process selected them)
        cells.append({"kind": "unselected-library", "cmd": cmd})
    # plug-in commands that subclass built-in ones (fuzziness by inheritance), and a sibling library that merely
    # shares a name prefix with a selected one
    for consumer in ("Sum", "Normalize", "CvtToFuzzy", "AMinusB"):
        cells.append({"kind": "plugin-fuzzy-swap", "cmd": consumer, "plugin": True})
    cells.append({"kind": "plugin-accepted", "cmd": "FuzzyNot", "plugin": True})
    cells.append({"kind": "plugin-accepted", "cmd": "MySum", "plugin": True})
    cells.append({"kind": "unselected-sibling-library", "cmd": "OnlyInX", "plugin": True})
    cells.append({"kind": "plugin-generic-output", "cmd": "Sum", "plugin": True})
    cells.append({"kind": "plugin-generic-output", "cmd": "Copy", "plugin": True})
    cells.append({"kind": "plugin-accepted", "cmd": "SubDataOut", "plugin": True})
    # the same faults in a file written in the EEMS 2.0 dialect (commands without result names)
    from ..refmodel.declarations import V2_NAMES
    for cmd in sorted(V2_NAMES):
        if cmd != "EEMSRead":
            cells.append({"kind": "duplicate-result", "cmd": cmd, "v2": True})
    return cells


MATRIX12 = build_matrix(False)
MATRIX13 = [c for c in build_matrix(True) if not c.get("plugin")]


# ------------------------------------------------------------------------------------------------
# models that contain a given command
# ------------------------------------------------------------------------------------------------
def model_with(rng, cmd, tier):
    """A valid model (with PrintVars + EEMSWrite sinks) that contains `cmd` and at least one fuzzy result."""
    for attempt in range(40):
        model = modelgen.gen_model(rng, tier, ints=False if rng.random() < 0.7 else None,
                                   missing=False if rng.random() < 0.7 else None,
                                   ncmds=rng.randint(3, 8))
        env = eems.run_model(model["table"], model["cmds"])
        nf = [c["name"] for c in model["cmds"] if not env[c["name"]].fuzzy]
        fz = [c["name"] for c in model["cmds"] if env[c["name"]].fuzzy]
        if not fz:
            src = rng.choice(nf)
            extra = {"name": "fz0", "cmd": "CvtToFuzzy", "args": {"InFieldName": src, "TrueThreshold": 2.5,
                                                                   "FalseThreshold": -1.5}}
            env["fz0"] = eems.evaluate("CvtToFuzzy", extra["args"], env)
            model["cmds"].append(extra)
            fz.append("fz0")
        names = [c["cmd"] for c in model["cmds"]]
        if cmd not in names and cmd not in ("EEMSWrite", "PrintVars", "EEMSRead"):
            ok = False
            for _ in range(20):
                args = modelgen.gen_args(rng, cmd, nf, fz, env)
                if args is None:
                    break
                try:
                    env["tgt"] = eems.evaluate(cmd, args, env)
                except eems.Precondition:
                    continue
                model["cmds"].append({"name": "tgt", "cmd": cmd, "args": args})
                ok = True
                break
            if not ok:
                continue
        modelgen.add_sinks(rng, model, write=True, printvars=True)
        return model
    raise RuntimeError("could not build a model containing %s" % cmd)


def pick_target(rng, model, cmd):
    cands = [c for c in model["cmds"] if c["cmd"] == cmd]
    return rng.choice(cands)


def concretise(rng, model, cell):
    """Turn a matrix cell into a located fault on a concrete command of the model (or None)."""
    tgt = pick_target(rng, model, cell["cmd"])
    f = {"kind": cell["kind"], "target": tgt["name"], "cmd": cell["cmd"]}
    env = None
    if cell["kind"] == "unselected-library":
        f["libraries"] = ["mpilot.libraries.eems.basic", "mpilot.libraries.eems.csv"]
        f["names"] = sorted({c["cmd"] for c in model["cmds"] if DECL[c["cmd"]].get("fuzzy") or c["cmd"] == "CvtFromFuzzy"})
    if cell["kind"] in ("missing-param",):
        if cell["param"] not in tgt["args"]:
            return None
        f["param"] = cell["param"]
    elif cell["kind"] in ("wrong-kind", "duplicate-param"):
        if cell["kind"] == "duplicate-param":
            if cell["param"] not in tgt["args"]:
                return None
            f["first"] = rng.random() < 0.7      # the wrong one comes first (and is the one a last-wins reading drops)
        f["param"] = cell["param"]
        f["pkind"] = cell["pkind"]
        f["label"] = cell["label"]
        cur = tgt["args"].get(cell["param"])
        refs = [c["name"] for c in model["cmds"] if c["cmd"] not in ("EEMSWrite", "PrintVars")]
        ref = (cur[0] if isinstance(cur, list) and cur else cur) if isinstance(cur, (list, str)) else None
        if not isinstance(ref, str):
            ref = rng.choice(refs)
        val = cell["value"]

        def subst(v):
            if v == "$REF":
                return ref
            if isinstance(v, str) and v.startswith("$RAW:"):
                return {"$raw": v[5:]}
            if isinstance(v, list):
                return [subst(x) for x in v]
            return v

        if isinstance(val, str) and val.startswith("$ITEM:"):
            item = val[len("$ITEM:"):]
            item = {"abc": "abc", "nosuch": "nosuch", "7": 7, "[1]": [1], "{}": {"K": "v"}, "[$REF]": [ref], "True": True}[item]
            base = list(cur) if isinstance(cur, list) and cur else ([1.5, 2] if cell["pkind"] == "numbers" else [ref])
            pos = rng.randrange(len(base))
            base[pos] = item
            f["value"] = base
            f["item"] = item
            f["item_pos"] = pos
        else:
            f["value"] = subst(val)
        if cell["label"] == "relative-no-wd":
            f["no_wd"] = True
    elif cell["kind"] == "wrong-output-kind":
        if tgt["name"] == "pv" or (tgt["name"] == "out" and cell["producer"] == "out"):
            return None
        f["param"] = cell["param"]
        f["producer"] = cell["producer"]
        if cell["param"] not in tgt["args"]:
            return None
    elif cell["kind"] == "fuzzy-swap":
        env = eems.run_model(model["table"], model["cmds"])
        want_fuzzy = not cell["needs_fuzzy"]
        pool = [n for n, r in env.items() if r.fuzzy == want_fuzzy and n != tgt["name"]]
        if not pool or cell["param"] not in tgt["args"]:
            return None
        f["param"] = cell["param"]
        f["producer"] = rng.choice(pool)
        f["producer_fuzzy"] = want_fuzzy
    return f


def apply_fault(nodes, fault):
    """Mutate rendered-program nodes according to the located fault. Returns info for the oracles."""
    if not fault:
        return {}
    idx = next((i for i, n in enumerate(nodes) if n["name"] == fault["target"]), None)
    if idx is None:
        return {"inapplicable": True}
    node = nodes[idx]
    kind = fault["kind"]
    info = {"node": node, "line_of": "command"}

    def setarg(name, value):
        for a in node["args"]:
            if a[0] == name:
                a[1] = value
                return
        node["args"].append([name, value])

    def getarg(name):
        for a in node["args"]:
            if a[0] == name:
                return a[1]
        return None

    if kind in ("unselected-library", "unselected-sibling-library", "plugin-fuzzy-swap", "plugin-generic-output"):
        pass      # the fault is in the model / library selection itself
    elif kind == "unknown-command":
        node["cmd"] = "NoSuchCommand"
    elif kind == "duplicate-result":
        dup = copy.deepcopy(node)
        dup["dup"] = True
        pos = fault.get("dup_pos", len(nodes))
        pos = max(idx + 1, min(len(nodes), pos))
        nodes.insert(pos, dup)
        info["node"] = dup
    elif kind == "missing-param":
        node["args"] = [a for a in node["args"] if a[0] != fault["param"]]
    elif kind == "extra-param":
        node["args"].insert(min(len(node["args"]), fault.get("pos", 99)), ["Bogus", 1])
        info["line_of"] = "arg:Bogus"
    elif kind == "wrong-kind":
        setarg(fault["param"], copy.deepcopy(fault["value"]))
        info["line_of"] = "arg:" + fault["param"]
    elif kind == "duplicate-param":
        pos = next((i for i, a in enumerate(node["args"]) if a[0] == fault["param"]), None)
        if pos is None:
            return {"inapplicable": True}
        extra = [fault["param"], copy.deepcopy(fault["value"])]
        node["args"].insert(pos if fault.get("first", True) else pos + 1, extra)
        info["line_of"] = "dup:" + fault["param"]
    elif kind in ("wrong-output-kind", "fuzzy-swap"):
        cur = getarg(fault["param"])
        if isinstance(cur, list):
            new = list(cur)
            new[fault.get("item_pos", 0) % len(new)] = fault["producer"]
        else:
            new = fault["producer"]
        setarg(fault["param"], new)
        info["line_of"] = "arg:" + fault["param"]
    return info


def expected_errors(fault):
    """Set of acceptable (class name, attribute checks) for a located fault."""
    k = fault["kind"]
    if k == "unknown-command":
        return [("CommandDoesNotExist", {"name": "NoSuchCommand"})]
    if k == "unselected-library":
        return [("CommandDoesNotExist", {"name": n}) for n in fault["names"]]
    if k == "unselected-sibling-library":
        return [("CommandDoesNotExist", {"name": "OnlyInX"})]
    if k == "plugin-fuzzy-swap":
        return [("ResultIsFuzzy", {"result": "pf"})]
    if k == "plugin-generic-output":
        return [("ResultTypeNotValid", {"result": "go"})]
    if k == "duplicate-result":
        return [("DuplicateResult", {"result": fault["target"]})]
    if k == "missing-param":
        return [("MissingParameters", {"parameters~": fault["param"], "command": fault["cmd"]})]
    if k == "extra-param":
        return [("NoSuchParameter", {"parameter": "Bogus", "command": fault["cmd"]})]
    if k == "wrong-output-kind":
        out = [("ResultTypeNotValid", {"result": fault["producer"]})]
        p = DECL[fault["cmd"]]["params"][fault["param"]]
        if p["fz"] is True:
            out.append(("ResultNotFuzzy", {"result": fault["producer"]}))
        return out
    if k == "fuzzy-swap":
        if fault["producer_fuzzy"]:
            return [("ResultIsFuzzy", {"result": fault["producer"]})]
        return [("ResultNotFuzzy", {"result": fault["producer"]})]
    if k == "duplicate-param":
        # how it is reported is open (the repeated name, or the value of the wrong kind) as long as it is a located
        # MPilot error that names the parameter or the value
        return [("ProgramError", {"str~": fault["param"]}), ("ParameterNotValid", {})]
    if k == "wrong-kind":
        lab = fault["label"]
        v = fault["value"]
        if lab == "unknown" and fault.get("pkind") == "result":
            return [("ResultDoesNotExist", {"result": "nosuch"})]
        if lab == "item-unknown":
            return [("ResultDoesNotExist", {"result": "nosuch"})]
        if lab == "missing-file":
            return [("PathDoesNotExist", {"path$": str(v).rsplit("/", 1)[-1]})]
        if lab == "relative-no-wd":
            return [("InvalidRelativePath", {"path": v})]
        if lab in ("bool-word", "item-bool-word"):
            return [("ParameterNotValid", {})]       # (the word arrives as text or as a boolean, whichever the parser makes of it)
        if lab.startswith("item-"):
            item = fault.get("item")
            return [("ParameterNotValid", {"value": item} if not isinstance(item, (list, dict)) else {})]
        return [("ParameterNotValid", {"value": v} if not isinstance(v, (list, dict)) else {})]
    return []


def check_expected(exc, fault):
    """None if exc is one of the expected rejections, else a description."""
    exps = expected_errors(fault)
    names = [type(k).__name__ for k in type(exc).__mro__]
    why = []
    for cls, attrs in exps:
        if cls not in [c.__name__ for c in type(exc).__mro__]:
            why.append("not a %s" % cls)
            continue
        bad = None
        for a, want in attrs.items():
            if a == "str~":
                if want not in str(exc):
                    bad = "message does not mention %r" % (want,)
            elif a.endswith("~"):
                got = getattr(exc, a[:-1], None)
                try:
                    ok = want in got
                except TypeError:
                    ok = False
                if not ok:
                    bad = "%s=%r does not contain %r" % (a[:-1], got, want)
            elif a.endswith("$"):
                got = getattr(exc, a[:-1], None)
                if not (isinstance(got, str) and got.endswith(want)):
                    bad = "%s=%r does not end with %r" % (a[:-1], got, want)
            else:
                got = getattr(exc, a, None)
                if got != want or type(got) is not type(want) and not (isinstance(got, str) and isinstance(want, str)):
                    bad = "%s=%r instead of %r" % (a, got, want)
            if bad:
                break
        if bad is None:
            return None
        why.append("%s but %s" % (cls, bad))
    return "; ".join(why) or ("unexpected " + names[0])


# ------------------------------------------------------------------------------------------------
# generation
# ------------------------------------------------------------------------------------------------
def generate(prop, rng, index, tier):
    if prop == "C12":
        return _generate12(rng, index, tier)
    return _generate13(rng, index, tier)


def _absolutise(model):
    for c in model["cmds"]:
        for p in ("InFileName", "OutFileName"):
            v = c["args"].get(p)
            if isinstance(v, str) and not v.startswith("/"):
                c["args"][p] = WORK + "/" + v
    return model


def _common_schedule(rng, model, fault):
    n = len(model["cmds"])
    order = list(range(n))
    r = rng.random()
    if r < 0.3:
        pass
    elif r < 0.5:
        order.reverse()
    else:
        rng.shuffle(order)
    return {"order": order, "argseed": rng.randrange(1 << 20) if rng.random() < 0.5 else 0,
            "layout": random_layout(rng, wild=rng.random() < 0.5)}


NC_LIBS = ("mpilot.libraries.eems.basic", "mpilot.libraries.eems.netcdf", "mpilot.libraries.eems.fuzzy")
DECL_NC = decl_table("netcdf")


def nc_model(rng):
    """A small valid model of the NetCDF configuration; $NC / $DIR are replaced by real scratch paths at run time."""
    cmds = [{"name": "r0", "cmd": "EEMSRead", "args": {"InFileName": "$NC", "InFieldName": "elevation"}}]
    r = rng.random()
    if r < 0.5:
        cmds[0]["args"]["DataType"] = rng.choice(["Float", "Integer", "Positive Float"])
    if rng.random() < 0.3:
        cmds[0]["args"]["MissingValue"] = rng.choice([-9999, 1776])
    nf, fz = ["r0"], []
    if rng.random() < 0.35:
        # a layer that already holds fuzzy values, read as such (the file is made at run time next to the outputs)
        cmds.append({"name": "rf", "cmd": "EEMSRead", "args": {"InFileName": "$DIR/fuzzy.nc", "InFieldName": "suitability",
                                                                "DataType": "Fuzzy"}})
        fz.append("rf")
    for i in range(rng.randint(1, 4)):
        name = "v%d" % (i + 1)
        k = rng.choice(["Sum", "Copy", "AMinusB", "Multiply", "CvtToFuzzy", "FuzzyNot", "FuzzyOr", "Maximum"])
        if k in ("FuzzyNot", "FuzzyOr") and not fz:
            k = "CvtToFuzzy"
        if k in ("Sum", "Multiply", "Maximum"):
            args = {"InFieldNames": [rng.choice(nf) for _ in range(rng.randint(1, 3))]}
        elif k == "Copy":
            args = {"InFieldName": rng.choice(nf)}
        elif k == "AMinusB":
            args = {"A": rng.choice(nf), "B": rng.choice(nf)}
        elif k == "CvtToFuzzy":
            args = {"InFieldName": rng.choice(nf), "TrueThreshold": 2400, "FalseThreshold": 1700}
        elif k == "FuzzyNot":
            args = {"InFieldName": rng.choice(fz)}
        else:
            args = {"InFieldNames": [rng.choice(fz) for _ in range(rng.randint(1, 2))]}
        cmds.append({"name": name, "cmd": k, "args": args})
        (fz if DECL[k]["fuzzy"] else nf).append(name)
    cmds.append({"name": "pv", "cmd": "PrintVars", "args": {"InFieldNames": [rng.choice(nf)], "OutFileName": "$DIR/print.txt"}})
    cmds.append({"name": "out", "cmd": "EEMSWrite", "args": {
        "OutFileName": "$DIR/out.nc", "OutFieldNames": list(dict.fromkeys(rng.choice(nf + fz) for _ in range(rng.randint(1, 3)))),
        "DimensionFileName": "$NC", "DimensionFieldName": "elevation"}})
    return {"table": None, "cmds": cmds, "config": "netcdf"}


def _generate12_nc(rng, index, tier, cell):
    model = nc_model(rng)
    twin = rng.random() < 0.1
    fault = None
    for _ in range(5):
        fault = concretise(rng, model, cell)
        if fault is not None:
            break
    if fault and fault["kind"] == "wrong-kind" and fault.get("label") == "missing-file":
        fault["value"] = "$DIR/nofile.nc"
    if fault and fault["target"] == "rf" and fault.get("param") == "DataType":
        fault["target"] = "r0"       # (one fault per model: without its type the fuzzy layer would not be fuzzy either)
    sch = _common_schedule(rng, model, fault)
    sch["layout"]["eol"] = "\n"
    if fault and fault["kind"] == "extra-param":
        fault["pos"] = rng.randint(0, 6)
    sc = {"engine": "modelsim", "prop": "C12", "mode": "fault12", "config": "netcdf", "model": model,
          "fault": None if (twin or fault is None) else fault, "cell": {k: v for k, v in cell.items() if k != "value"},
          "route": "lib", "no_wd": False}
    sc.update(sch)
    return sc


PLUGIN_LIBS = ["mpilot.libraries.eems.basic", "mpilot.libraries.eems.csv", "mpilot.libraries.eems.fuzzy", "mpsim_plugins"]


def _generate12_plugin(rng, index, tier, cell):
    model = model_with(rng, "Sum", tier)
    cmds = model["cmds"]
    env = eems.run_model(model["table"], cmds)
    fz = [c["name"] for c in cmds if c["name"] in env and env[c["name"]].fuzzy]
    nf = [c["name"] for c in cmds if c["name"] in env and not env[c["name"]].fuzzy]
    sinks = [c for c in cmds if c["cmd"] in ("EEMSWrite", "PrintVars")]
    body = [c for c in cmds if c not in sinks]
    body.append({"name": "pf", "cmd": "MyFuzzyOr", "args": {"InFieldNames": [rng.choice(fz) for _ in range(rng.randint(1, 3))]}})
    kind = cell["kind"]
    fault = None
    if kind == "plugin-fuzzy-swap":
        consumer = cell["cmd"]
        args = {"Sum": {"InFieldNames": [rng.choice(nf), "pf"]}, "Normalize": {"InFieldName": "pf"},
                "CvtToFuzzy": {"InFieldName": "pf", "TrueThreshold": 1, "FalseThreshold": 0},
                "AMinusB": {"A": rng.choice(nf), "B": "pf"}}[consumer]
        body.append({"name": "tgt2", "cmd": consumer, "args": args})
        fault = {"kind": kind, "target": "tgt2", "cmd": consumer, "producer": "pf", "libraries": PLUGIN_LIBS}
    elif kind == "plugin-generic-output":
        body.append({"name": "go", "cmd": "GenericOut", "args": {}})
        if cell["cmd"] == "Sum":
            body.append({"name": "tgt2", "cmd": "Sum", "args": {"InFieldNames": [rng.choice(nf), "go"]}})
        else:
            body.append({"name": "tgt2", "cmd": "Copy", "args": {"InFieldName": "go"}})
        fault = {"kind": kind, "target": "tgt2", "cmd": cell["cmd"], "producer": "go", "libraries": PLUGIN_LIBS}
    elif kind == "plugin-accepted":
        if cell["cmd"] == "FuzzyNot":
            body.append({"name": "tgt2", "cmd": "FuzzyNot", "args": {"InFieldName": "pf"}})
        elif cell["cmd"] == "SubDataOut":
            body.append({"name": "sd", "cmd": "SubDataOut", "args": {"InFieldName": rng.choice(nf)}})
            body.append({"name": "tgt2", "cmd": "Sum", "args": {"InFieldNames": ["sd", rng.choice(nf)]}})
        else:
            body.append({"name": "tgt2", "cmd": "MySum", "args": {"InFieldNames": [rng.choice(nf), rng.choice(nf)]}})
    else:
        body.append({"name": "tgt2", "cmd": "OnlyInX", "args": {"InFieldName": rng.choice(nf)}})
        fault = {"kind": kind, "target": "tgt2", "cmd": "OnlyInX", "libraries": PLUGIN_LIBS}
    model["cmds"] = body + sinks
    sch = _common_schedule(rng, model, fault)
    sch["layout"]["eol"] = "\n"
    sc = {"engine": "modelsim", "prop": "C12", "mode": "fault12", "model": model, "fault": fault,
          "cell": dict(cell), "route": "lib", "no_wd": False, "libraries": PLUGIN_LIBS,
          "preload": "sibling-library" if kind == "unselected-sibling-library" else rng.choice([None, "sibling-library"]),
          "rerun": rng.random() < 0.3}
    sc.update(sch)
    return sc


def _generate12(rng, index, tier):
    cell = MATRIX12[index % len(MATRIX12)]
    if cell.get("config") == "netcdf":
        return _generate12_nc(rng, index, tier, cell)
    if cell.get("plugin"):
        return _generate12_plugin(rng, index, tier, cell)
    twin = rng.random() < 0.08
    fault = None
    for _ in range(20):
        model = model_with(rng, cell["cmd"], tier)
        fault = concretise(rng, model, cell)
        if fault is not None:
            break
    if fault is None:
        twin = True
    sch = _common_schedule(rng, model, fault)
    sch["layout"]["eol"] = "\n"
    route = "cli" if rng.random() < 0.3 else "lib"
    if fault and fault.get("no_wd"):
        route = "lib"
        _absolutise(model)
        if fault["param"] == "InFileName":
            fault["value"] = "in.csv"
    if fault and fault["kind"] == "unselected-library":
        route = "lib"
    if fault and fault["kind"] == "duplicate-result":
        fault["dup_pos"] = rng.randint(0, len(model["cmds"]) + 1)
    if fault and fault["kind"] == "extra-param":
        fault["pos"] = rng.randint(0, 6)
    sc = {"engine": "modelsim", "prop": "C12", "mode": "fault12", "model": model, "fault": None if twin else fault,
          "cell": {k: v for k, v in cell.items() if k != "value"}, "route": route, "no_wd": bool(fault and fault.get("no_wd")
                                                                                               and not twin),
          # history: what the process loaded before (an EEMS 2.0 style file; a program over other libraries), and
          # whether the client calls run() again after the rejection
          "preload": rng.choice([None, None, "v2", "v2", "netcdf-program"]), "rerun": rng.random() < 0.35,
          "api_recovery": rng.random() < 0.4, "data_repair": rng.random() < 0.5,
          # the (default) libraries named through a generator instead of a tuple
          "libs_as_iter": rng.random() < 0.15}
    sc.update(sch)
    if cell.get("v2") and sc["fault"]:
        # EEMS 2.0 dialect: the translation drops every OutFileName argument, so such files have no file-writing commands
        kept = [i for i, c in enumerate(model["cmds"]) if c["cmd"] != "EEMSWrite"]
        model["cmds"] = [model["cmds"][i] for i in kept]
        for c in model["cmds"]:
            if c["cmd"] == "PrintVars":
                c["args"].pop("OutFileName", None)
        sc["order"] = [kept.index(i) for i in sc["order"] if i in kept]
        sc["v2_names"] = [sc["fault"]["target"]]
        sc["route"] = "lib"
    if sc["no_wd"] is False and fault and fault.get("no_wd"):
        sc["no_wd"] = False
    if sc["fault"] and not sc["no_wd"] and sc["fault"].get("target") != "out" and sc["fault"].get("producer") != "out" \
            and rng.random() < 0.2:
        # the writer's OutFileName lies in a folder that does not exist yet: validating it must not create anything
        for c in model["cmds"]:
            if c["cmd"] == "EEMSWrite":
                c["args"]["OutFileName"] = rng.choice(["fresh/out.csv", WORK + "/newdir/sub/out.csv"])
        sc["new_out_dir"] = True
    return sc


# ---- chaos (C13) -----------------------------------------------------------------------------------------
TEXT_OPS = ("delete", "duplicate", "swap", "unbalance-open", "unbalance-close", "quote-open", "backslash-x",
            "backslash-u", "backslash-N", "backslash-end", "non-ascii", "surrogate", "nul", "strip-result", "garbage-char",
            "number-exp", "v2-head", "colon-in-list", "empty-arglist", "list-then-pair", "pair-then-list", "huge-int",
            "v2-numeric-name", "deep-list", "deep-chain", "copy-cycle")
DEEP_N = (250, 1100, 2500)
CSV_OPS = ("second-table", "second-table", "odd-field-name", "odd-field-name-missing", "empty", "header-only", "ragged-short", "ragged-long", "non-numeric", "missing-column", "dup-header",
           "truncated", "nul-bytes", "huge", "inf", "nan", "blank-first", "bom", "quoted-cell", "empty-cell")
FS_OPS = (("open", "in", "ENOENT"), ("open", "in", "EACCES"), ("open", "in", "EMFILE"), ("open", "in", "EIO"),
          ("read", "in", "EIO"), ("open", "out", "EACCES"), ("open", "out", "ENOSPC"), ("open", "out", "EISDIR"),
          ("write", "out", "ENOSPC"), ("close", "out", "EIO"), ("open", "print", "EACCES"), ("write", "print", "ENOSPC"),
          ("exists", "in", "EACCES"), ("undecodable", "in", ""))
ACTOR_OPS = (("delete", "in"), ("replace-garbage", "in"), ("replace-empty", "in"), ("unreadable", "in"),
             ("create", "out"))
EXEC_EXC = ("MemoryError", "OSError", "RuntimeError", "KeyError", "ZeroDivisionError", "RecursionError")


def _generate13(rng, index, tier):
    cell = MATRIX13[index % len(MATRIX13)]
    model = model_with(rng, cell["cmd"], tier)
    # swarm: each run enables a random subset of fault kinds
    enabled = [k for k in ("text", "csv", "kind", "fs", "actor", "exec") if rng.random() < 0.5] or ["kind"]
    nf = rng.choices([0, 1, 2], weights=[15, 60, 25])[0]
    faults = []
    for _ in range(nf):
        k = rng.choice(enabled)
        if k == "text":
            faults.append({"kind": "text", "op": rng.choice(TEXT_OPS), "tok": rng.randrange(10000),
                           "tok2": rng.randrange(10000)})
        elif k == "csv":
            faults.append({"kind": "csv", "op": rng.choice(CSV_OPS), "row": rng.randrange(100), "col": rng.randrange(100)})
        elif k == "kind":
            f = concretise(rng, model, cell)
            if f is not None:
                f = dict(f)
                f["fkind"] = f["kind"]
                f["kind"] = "located"
                faults.append(f)
        elif k == "fs":
            op, which, err = rng.choice(FS_OPS)
            faults.append({"kind": "fs", "op": op, "which": which, "err": err, "nth": rng.choice([0, 0, 1, 2]),
                           "after": rng.choice([0, 1, 5, 20, 60])})
        elif k == "actor":
            do, which = rng.choice(ACTOR_OPS)
            faults.append({"kind": "actor", "do": do, "which": which,
                           "at_op": rng.choice(["exists", "exists", "open"]), "at_nth": rng.choice([0, 1, 1, 2])})
        elif k == "exec":
            tgt = rng.choice(model["cmds"])
            faults.append({"kind": "exec", "cmd": tgt["name"], "exc": rng.choice(EXEC_EXC)})
    sch = _common_schedule(rng, model, None)
    # line endings: LF mostly; CRLF, CR-only and LF+CR files are legal inputs of from_source too
    sch["layout"]["eol"] = rng.choice(["\n", "\n", "\n", "\r\n", "\r", "\n\r"])
    route = rng.choice(["lib", "lib", "cli"])
    extra = None
    followups = []
    if rng.random() < 0.4:
        for _ in range(rng.randint(1, 3)):
            followups.append(["RUN"] if rng.random() < 0.5 else ["GET", rng.randrange(100)])
    r = rng.random()
    if r < 0.04:
        extra = rng.choice(["netcdf-missing-variable", "netcdf-kind-confusion"])
        route = "cli"
    elif r < 0.08:
        extra = "duplicate-library"
        route = "cli"
    sc = {"engine": "modelsim", "prop": "C13", "mode": "chaos", "model": model, "faults": faults, "route": route,
          "cell": {k: v for k, v in cell.items() if k != "value"}, "extra": extra, "followups": followups}
    sc.update(sch)
    if rng.random() < 0.2:
        # legal metadata on some commands; the grammar lets a value be a number as well as a string (seeded change C13-i1)
        sc["meta"] = {c["name"]: {"DisplayName": "the " + c["name"], "Year": 2020, "Weight": 0.25}
                      for c in model["cmds"] if rng.random() < 0.4}
    return sc


# ------------------------------------------------------------------------------------------------
# text and CSV corruption (pure functions of the scenario)
# ------------------------------------------------------------------------------------------------
TOKEN_RE = re.compile(r'''("(?:\\.|[^"\\])*"|'(?:\\.|[^'\\])*'|[A-Za-z_][A-Za-z_0-9]*|[-+]?\d+\.\d*|[-+]?\d+|[()\[\],=:]|\#[^\n]*|\s+|.)''',
                      re.S)


def corrupt_text(text, f):
    toks = TOKEN_RE.findall(text)
    sig = [i for i, t in enumerate(toks) if not t.isspace() and not t.startswith("#")]
    if not sig:
        return text
    i = sig[f["tok"] % len(sig)]
    j = sig[f["tok2"] % len(sig)]
    op = f["op"]
    strs = [k for k in sig if toks[k][0] in "\"'"]
    if op == "delete":
        toks[i] = ""
    elif op == "duplicate":
        toks[i] = toks[i] + " " + toks[i]
    elif op == "swap":
        toks[i], toks[j] = toks[j], toks[i]
    elif op == "unbalance-open":
        toks[i] = toks[i] + " ["
    elif op == "unbalance-close":
        toks[i] = toks[i] + " )"
    elif op == "quote-open":
        toks[i] = '"' + toks[i]
    elif op in ("backslash-x", "backslash-u", "backslash-N", "backslash-end", "non-ascii", "surrogate", "nul"):
        ins = {"backslash-x": "\\x", "backslash-u": "\\u12", "backslash-N": "\\N{nope}", "backslash-end": "\\",
               "non-ascii": "\u00e9\u4e2d", "surrogate": "\ud800", "nul": "\x00"}[op]
        if strs:
            k = strs[f["tok"] % len(strs)]
            t = toks[k]
            toks[k] = t[:-1] + ins + t[-1]
        else:
            toks[i] = '"a' + ins + '"'
    elif op == "strip-result":
        # `R = Cmd(` -> `Cmd(`  (turns the file into EEMS 2.0 syntax)
        heads = [k for k in sig if toks[k] == "="]
        if heads:
            k = heads[f["tok"] % len(heads)]
            prev = [x for x in sig if x < k]
            if prev:
                toks[prev[-1]] = ""
                toks[k] = ""
    elif op == "garbage-char":
        toks[i] = toks[i] + rng_char(f["tok2"])
    elif op == "number-exp":
        toks[i] = "1e-05"
    elif op in ("empty-arglist", "list-then-pair", "pair-then-list", "huge-int", "deep-list") and f["tok"] % 2:
        # half of the time the extra command stands between two commands of the file (or first, or last) instead of
        # in the middle of one
        extra = {"empty-arglist": "Z = Sum()", "list-then-pair": 'ZZ = Copy(InFieldName = [b, "x": 1])',
                 "pair-then-list": 'ZZ = Copy(InFieldName = ["x": 1, b, c])',
                 "huge-int": "ZZ = Copy(InFieldName = " + "9" * 5000 + ")",
                 "deep-list": "ZZ = Sum(InFieldNames = " + "[" * (40, 1000, 3000)[f["tok2"] % 3] + "a" +
                              "]" * (40, 1000, 3000)[f["tok2"] % 3] + ")"}[op]
        depth, ends = 0, []
        for k in sig:
            if toks[k] in "([":
                depth += 1
            elif toks[k] in ")]":
                depth -= 1
                if depth == 0 and toks[k] == ")":
                    ends.append(k)
        where = f["tok2"] % (len(ends) + 1)
        if where == len(ends) or not ends:
            return "".join(toks) + "\n" + extra + ("\n" if f["tok2"] % 3 else "")
        if where == 0 and f["tok2"] % 5 == 0:
            return extra + "\n" + "".join(toks)
        toks[ends[where]] = toks[ends[where]] + "\n" + extra + "\n"
    elif op == "v2-head":
        toks[i] = toks[i] + "\nREAD(InFieldName = [a, b], InFileName = 5)\n"
    elif op == "colon-in-list":
        toks[i] = "[a: b, c]"
    elif op == "empty-arglist":
        toks[i] = toks[i] + "\nZ = Sum()\n"
    elif op == "list-then-pair":
        toks[i] = toks[i] + '\nZZ = Copy(InFieldName = [b, "x": 1])\n'
    elif op == "pair-then-list":
        toks[i] = toks[i] + '\nZZ = Copy(InFieldName = ["x": 1, b, c])\n'
    elif op == "huge-int":
        toks[i] = toks[i] + "\nZZ = Copy(InFieldName = " + "9" * 5000 + ")\n"
    elif op == "v2-numeric-name":
        # a pure EEMS 2.0 style file whose result names come from the field names: a number and words
        more = ("",
                "SUM(InFieldNames = [c0, nosuch], NewFieldName = t1)\n",        # misspelled reference in a list
                "COPYFIELD(InFieldName = nosuch, NewFieldName = t2)\n",         # misspelled direct reference
                "COPYFIELD(InFieldName = c0)\nCOPYFIELD(InFieldName = nosuch, NewFieldName = t3)\n",   # forgotten NewFieldName
                "COPYFIELD(InFieldName = 2020, NewFieldName = t4)\n")[f["tok"] % 5]
        return ('READ(InFileName = "in.csv", InFieldName = 2020)\nREAD(InFileName = "in.csv", InFieldName = c0)\n'
                'SUM(InFieldNames = [c0], NewFieldName = total)\n' + ("COPYFIELD(InFieldName = c0, NewFieldName = 7)\n"
                                                                      if f["tok2"] % 2 else "") + more)
    elif op == "copy-cycle":
        # commands that only copy each other, consumed by commands that care about fuzziness
        extra = ("CCa = Copy(InFieldName = CCb)\nCCb = Copy(InFieldName = CCa)\n",
                 "CCa = Copy(InFieldName = CCa)\n",
                 "CCa = Copy(InFieldName = CCb)\nCCb = Copy(InFieldName = CCc)\nCCc = Copy(InFieldName = CCa)\n")[f["tok"] % 3]
        user = ("CCz = FuzzyNot(InFieldName = CCa)\n", "CCz = Sum(InFieldNames = [CCa, CCa])\n",
                "CCz = FuzzyOr(InFieldNames = [CCa])\n")[f["tok2"] % 3]
        return (user + "".join(toks) + "\n" + extra) if f["tok2"] % 2 else ("".join(toks) + "\n" + extra + user)
    elif op == "deep-chain":
        # a long chain of dependent commands (deeper than the interpreter's default recursion limit for the larger sizes),
        # written consumer-first or producer-first
        m = re.search(r'InFileName\s*=\s*("[^"\n]*"|[^\s,()]+)', text)
        path = m.group(1) if m else '"in.csv"'
        m = re.search(r'InFieldName\s*=\s*([A-Za-z_][A-Za-z_0-9]*)', text)
        field = m.group(1) if m else "c0"
        n = DEEP_N[f["tok"] % len(DEEP_N)]
        lines = ["D0 = EEMSRead(InFileName = %s, InFieldName = %s)" % (path, field)]
        lines += ["D%d = Copy(InFieldName = D%d)" % (k, k - 1) for k in range(1, n)]
        if f["tok2"] % 2:
            lines.reverse()
        return "\n".join(lines) + "\n"
    elif op == "deep-list":
        toks[i] = toks[i] + "\nZZ = Sum(InFieldNames = " + "[" * 40 + "a" + "]" * 40 + ")\n"
    return "".join(toks)


def rng_char(n):
    return "!@$%^&*;~`|<>?{}"[n % 16]


ODD_NAMES = ("a{b}", "{0}", "100%s", "c{", "%(x)s", "x}y", "{lineno}")


def corrupt_csv(text, f):
    lines = text.split("\n")
    if f["op"] in ("odd-field-name", "odd-field-name-missing"):
        return text      # handled on the model side (see _odd_field)
    body = [k for k in range(1, len(lines)) if lines[k] != ""]
    op = f["op"]
    if op == "empty":
        return ""
    if op == "header-only":
        return lines[0] + "\n"
    if op == "blank-first":
        return "\n" + text
    if op == "bom":
        return "\ufeff" + text
    if not body:
        return text
    r = body[f["row"] % len(body)]
    cells = lines[r].split(",")
    c = f["col"] % len(cells)
    if op == "ragged-short":
        lines[r] = ",".join(cells[:max(0, len(cells) - 1 - c)])
        if lines[r] == "":
            lines[r] = ","
    elif op == "ragged-long":
        lines[r] = lines[r] + ",1,2"
    elif op == "non-numeric":
        cells[c] = "n/a"
        lines[r] = ",".join(cells)
    elif op == "missing-column":
        h = lines[0].split(",")
        h[f["col"] % len(h)] = "zz"
        lines[0] = ",".join(h)
    elif op == "dup-header":
        h = lines[0].split(",")
        h[f["col"] % len(h)] = h[0]
        lines[0] = ",".join(h)
    elif op == "truncated":
        last = body[-1]
        lines[last] = lines[last][: max(1, len(lines[last]) // 2)]
        lines = lines[: last + 1]
        return "\n".join(lines)
    elif op == "nul-bytes":
        cells[c] = "\x00"
        lines[r] = ",".join(cells)
    elif op in ("huge", "inf", "nan"):
        cells[c] = {"huge": "1e999", "inf": "inf", "nan": "nan"}[op]
        lines[r] = ",".join(cells)
    elif op == "quoted-cell":
        cells[c] = '"1,5"'
        lines[r] = ",".join(cells)
    elif op == "empty-cell":
        cells[c] = ""
        lines[r] = ",".join(cells)
    return "\n".join(lines)


# ------------------------------------------------------------------------------------------------
# execution
# ------------------------------------------------------------------------------------------------
def _side_effects_before(log, upto):
    """Side effects recorded on the event sequence before position `upto`."""
    execs = writes = stdout = actor = 0
    for kind, p in log.events[:upto]:
        if kind == "exec-enter":
            execs += 1
        elif kind == "fs" and p.get("op") == "open" and str(p.get("mode", ""))[:1] in ("w", "a", "x"):
            writes += 1
        elif kind == "stdout":
            stdout += 1
    return execs, writes, stdout


def _paths(model):
    out = {"in": model["table"]["path"], "model": MODEL_PATH}
    for c in model["cmds"]:
        if c["cmd"] == "EEMSWrite":
            v = c["args"].get("OutFileName")
            if isinstance(v, str):
                out["out"] = v if v.startswith("/") else WORK + "/" + v
        if c["cmd"] == "PrintVars" and isinstance(c["args"].get("OutFileName"), str):
            v = c["args"]["OutFileName"]
            out["print"] = v if v.startswith("/") else WORK + "/" + v
    return out


def _all_command_classes():
    from mpilot.commands import Command
    return [info.command for info in Command.get_commands() if info.module.startswith("mpilot.libraries")]


def run_once(sc, log, res, route, text, csv, fs_faults, actor, exec_faults, libraries=None, cli_args=None,
             more_files=None):
    """One pass of the pipeline.  Returns dict(outcome, exc, exit_code, cap, fs, reject_seq)."""
    from mpilot.program import Program

    model = sc["model"]
    files = {model["table"]["path"]: csv} if csv is not None else {}
    files.update(more_files or {})
    if route == "cli":
        files[MODEL_PATH] = text
    fs = SimFS(log, res, files=files, dirs=[WORK], faults=fs_faults, actor=actor)
    pending = {f["cmd"]: f for f in exec_faults}

    def on_enter(inst, key):
        f = pending.get(key)
        if f and not f.get("_done"):
            f["_done"] = True
            res.fired("exec-" + f["exc"])
            log.emit("fault", cmd=key, exc=f["exc"])
            import builtins
            raise getattr(builtins, f["exc"])("injected " + f["exc"])

    prop = sc.get("prop", "C13")

    def runaway(key, depth):
        res.violate(prop + ".runaway", prop + ".runaway unbounded-nesting",
                    "execute nesting reached %d in a model of %d commands (command %s)"
                    % (depth, ncmds, key))

    ncmds = len(model["cmds"])
    for f in sc.get("faults") or []:
        if f.get("kind") == "text" and f.get("op") == "deep-chain":
            ncmds = max(ncmds, DEEP_N[f["tok"] % len(DEEP_N)])
    mon = ExecMonitor(log, on_enter=on_enter, nesting_cap=ncmds + 3, on_runaway=runaway)
    out = {"outcome": "ok", "exc": None, "exit_code": None, "fs": fs, "monitor": mon}
    log.emit("route", route=route)
    with fs, StdCapture(log) as cap:
        out["cap"] = cap
        try:
            if route == "lib":
                wd = None if sc.get("no_wd") else WORK
                if libraries:
                    program = Program.from_source(text, libraries=libraries, working_dir=wd)
                elif sc.get("libs_as_iter"):
                    from mpilot.program import EEMS_CSV_LIBRARIES
                    program = Program.from_source(text, libraries=(lib for lib in EEMS_CSV_LIBRARIES), working_dir=wd)
                else:
                    program = Program.from_source(text, working_dir=wd)
                mon.install(list(program.command_library.values()))
                out["program"] = program
                program.run()
            else:
                from mpilot.cli.mpilot import main
                mon.install(_all_command_classes())
                main.main(args=cli_args or ["eems-csv", MODEL_PATH], standalone_mode=False)
        except SimAbort:
            out["outcome"] = "abort"
            out["reject_seq"] = log.seq
            log.emit("pipeline-abort")
        except SystemExit as exc:
            out["outcome"] = "exit"
            out["exit_code"] = exc.code
            out["reject_seq"] = log.seq
            log.emit("exit", code=exc.code if isinstance(exc.code, int) else repr(exc.code))
        except Exception as exc:
            out["outcome"] = "raise"
            out["exc"] = exc
            out["reject_seq"] = log.seq
            log.emit("pipeline-raise", exc=type(exc).__name__)
        finally:
            mon.uninstall()
    return out


def build_text(sc):
    from .modelsim import program_nodes
    model = sc["model"]
    nodes = program_nodes(model["cmds"], sc.get("order"), sc.get("argseed", 0), tuple(sc.get("v2_names") or ()),
                          sc.get("meta"))
    return nodes


def execute(sc):
    if sc["mode"] == "fault12":
        return _execute12(sc)
    return _execute13(sc)


def _in_domain(model, res, log):
    """A shrunk scenario may leave the documented domain of its commands: then it is not a case."""
    try:
        eems.run_model(model["table"], model["cmds"])
        return True
    except (eems.Precondition, KeyError) as exc:
        res.observe("scenario outside the documented domain")
        log.emit("invalid-scenario", why=str(exc)[:100])
        return False


def _subst_paths(v, nc, d):
    if isinstance(v, str):
        return v.replace("$NC", nc).replace("$DIR", d)
    if isinstance(v, list):
        return [_subst_paths(x, nc, d) for x in v]
    if isinstance(v, dict):
        return {k: _subst_paths(x, nc, d) for k, x in v.items()}
    return v


def _execute12_nc(sc):
    """Located single fault in the NetCDF configuration: real files in a per-run scratch directory."""
    import os
    import shutil
    import tempfile
    from mpilot.program import Program

    res = RunResult()
    model = sc["model"]
    log = EventLog(cap=6000)
    res.log = log
    fault = sc.get("fault")
    log.emit("scenario", prop="C12", config="netcdf", fault=({k: v for k, v in fault.items() if k != "value"} if fault else None))
    scratch = os.environ.get("MPSIM_SCRATCH", "")
    nc = os.path.join(scratch, "repo_test_data", "netcdf_test.nc")
    root = tempfile.mkdtemp(prefix="c12nc-", dir=os.path.join(scratch, "work"))
    label = _fault_label(fault)
    try:
        m2 = copy.deepcopy(model)
        for c in m2["cmds"]:
            c["args"] = _subst_paths(c["args"], nc, root)
        if any(c["name"] == "rf" for c in m2["cmds"]):
            import numpy
            from netCDF4 import Dataset
            with Dataset(nc) as src, Dataset(os.path.join(root, "fuzzy.nc"), "w") as dst:
                var = src.variables["elevation"]
                for d in var.dimensions:
                    dst.createDimension(d, src.dimensions[d].size)
                v = dst.createVariable("suitability", "f8", var.dimensions)
                v[:] = numpy.linspace(-1.0, 1.0, int(numpy.prod(var.shape))).reshape(var.shape)
            res.probe("NetCDF layer read with DataType = Fuzzy")
        f2 = copy.deepcopy(fault)
        if f2 and "value" in f2:
            f2["value"] = _subst_paths(f2["value"], nc, root)
        from .modelsim import program_nodes
        nodes = program_nodes(m2["cmds"], sc.get("order"), sc.get("argseed", 0))
        info = apply_fault(nodes, f2)
        if info.get("inapplicable"):
            return res
        try:
            text, ledger = render(nodes, sc.get("layout") or PLAIN)
        except ValueError:
            res.observe("unrenderable scenario")
            return res

        def runaway(key, depth):
            res.violate("C12.runaway", "C12.runaway unbounded-nesting", "execute nesting reached %d" % depth)

        mon = ExecMonitor(log, nesting_cap=len(m2["cmds"]) + 3, on_runaway=runaway)
        outcome, exc = "ok", None
        with Hygiene(), StdCapture(log) as cap:
            try:
                program = Program.from_source(text, libraries=NC_LIBS, working_dir=root)
                mon.install(list(program.command_library.values()))
                program.run()
            except SimAbort:
                outcome = "abort"
            except Exception as e:  # noqa
                outcome, exc = "raise", e
            finally:
                mon.uninstall()
        produced = sorted(x for x in os.listdir(root) if x != "fuzzy.nc")      # (the input layer made above is not an output)
        log.emit("outcome", outcome=outcome, exc=type(exc).__name__ if exc else None, produced=produced)
        res.state_keys.add(h64(["nc", label, outcome]))
        if outcome == "abort":
            pass
        elif not fault:
            if outcome != "ok":
                res.violate("C12.accept", _sig12("accept well-formed-model-rejected netcdf", None, exc),
                            "a well-formed NetCDF model was rejected: %r" % (exc,))
            elif "out.nc" not in produced:
                res.violate("C12.accept", "C12.accept netcdf-output-missing", "accepted model wrote no out.nc")
            else:
                res.probe("unfaulted twin (accepted side), NetCDF configuration")
        elif outcome == "ok":
            res.violate("C12.reject", _sig12("reject accepted netcdf", fault), "NetCDF model with fault [%s] was accepted" % label)
        else:
            f3 = dict(f2)
            why = check_expected_nc(exc, f3)
            if why is not None:
                res.violate("C12.error", _sig12("error wrong-rejection netcdf", fault, exc),
                            "fault [%s] was rejected with %s: %s (%s)" % (label, type(exc).__name__, why, str(exc)[:160]))
            execs = sum(mon.counts.values())
            if execs or produced or cap.out.getvalue():
                res.violate("C12.effects", _sig12("effects side-effect-before-rejection netcdf", fault),
                            "fault [%s]: %d commands executed, files produced %r, %d characters on stdout"
                            % (label, execs, produced, len(cap.out.getvalue())))
            res.probe("NetCDF configuration fault: " + fault["kind"])
    finally:
        shutil.rmtree(root, ignore_errors=True)
    res.case_key = h64([sc.get("cell"), [c["cmd"] for c in model["cmds"]], label, "nc"])
    res.schedule_key = h64([sc.get("order"), label, "nc"])
    res.nontrivial = True
    if fault:
        res.configured("located-" + fault["kind"])
        res.fired("located-" + fault["kind"])
    return res


def check_expected_nc(exc, fault):
    saved = DECL.get(fault["cmd"])
    try:
        DECL[fault["cmd"]] = DECL_NC[fault["cmd"]]
        return check_expected(exc, fault)
    finally:
        DECL[fault["cmd"]] = saved


def _execute12(sc):
    if sc.get("config") == "netcdf":
        return _execute12_nc(sc)
    from mpilot.exceptions import MPilotError
    res = RunResult()
    model = sc["model"]
    log = EventLog(cap=4000 + 300 * len(model["cmds"]))
    res.log = log
    fault = sc.get("fault")
    log.emit("scenario", prop="C12", fault=({k: v for k, v in fault.items() if k != "value"} if fault else None),
             route=sc["route"])
    if not (sc.get("cell") or {}).get("plugin") and not _in_domain(model, res, log):
        return res
    nodes = build_text(sc)
    info = apply_fault(nodes, fault)
    if info.get("inapplicable"):
        res.observe("fault not applicable after shrinking")
        return res
    try:
        text, ledger = render(nodes, sc.get("layout") or PLAIN)
    except ValueError as exc:
        res.observe("unrenderable scenario: %s" % exc)
        return res
    csv = modelgen.csv_text(model["table"])
    paths = _paths(model)
    label = _fault_label(fault)
    with Hygiene():
        _preload(sc, log, res, csv)
        libs = tuple(fault["libraries"]) if fault and fault.get("libraries") else (
            tuple(sc["libraries"]) if sc.get("libraries") else None)
        out = run_once(sc, log, res, "lib", text, csv, [], [], [], libraries=libs)
        _judge12(sc, res, log, out, fault, label, paths, "lib")
        if sc.get("rerun") and fault and out.get("program") is not None and out["outcome"] == "raise":
            _rerun12(sc, res, log, out, fault, label)
        if fault and fault["kind"] in ("missing-param", "extra-param") and sc.get("api_recovery") and not sc.get("new_out_dir") \
                and not sc.get("v2_names"):
            _api_recovery12(sc, res, log, csv, fault, label)
        if sc["route"] == "cli" and not sc.get("no_wd"):
            start = log.seq
            out2 = run_once(sc, log, res, "cli", text, csv, [], [], [])
            _judge12_cli(sc, res, log, out, out2, fault, label, paths, start)
        if not fault and sc.get("data_repair") and not sc.get("no_wd") and not libs:
            _data_repair12(sc, res, log, text, csv)
    pos = [n["name"] for n in nodes]
    res.case_key = h64([sc.get("cell"), [c["cmd"] for c in model["cmds"]], label])
    res.schedule_key = h64([sc.get("order"), label])
    res.state_keys.add(h64([label, out["outcome"]]))
    res.nontrivial = True
    if fault:
        res.configured("located-" + fault["kind"])
        res.fired("located-" + fault["kind"])
        # position probes
        writer = pos.index("out") if "out" in pos else None
        tpos = pos.index(fault["target"]) if fault["target"] in pos else None
        if writer is not None and tpos is not None:
            res.probe("fault after the writer in the file" if tpos > writer else "fault before the writer in the file")
        res.probe("matrix cell: %s" % fault["kind"])
    else:
        res.probe("unfaulted twin (accepted side)")
    if sc["route"] == "cli":
        res.probe("CLI route")
    return res


def _data_repair12(sc, res, log, text, csv):
    """A well-formed model first meets a data file with a broken row (a legitimate run-time failure); the file is repaired
    and the same program is run again: it is still the well-formed model it was, and must be accepted."""
    from mpilot.program import Program
    model = sc["model"]
    rows = csv.split("\n")
    if len(rows) < 2 or not rows[1]:
        return
    broken = list(rows)
    broken[1] = ",".join("n/a" for _ in rows[1].split(","))
    path = model["table"]["path"]
    fs = SimFS(log, None, files={path: "\n".join(broken)}, dirs=[WORK])
    log.emit("op-begin", op="DATA-REPAIR")
    with fs, StdCapture(log):
        try:
            program = Program.from_source(text, working_dir=WORK)
        except Exception as exc:  # noqa - judged by the first pass
            return
        first = None
        try:
            program.run()
        except SimAbort:
            raise
        except Exception as exc:  # noqa
            first = exc
        import posixpath
        fs.files[posixpath.normpath(path)] = csv.encode("utf-8")
        fs.touch(path)
        second = None
        try:
            program.run()
        except SimAbort:
            raise
        except Exception as exc:  # noqa
            second = exc
    log.emit("op-end", op="DATA-REPAIR", first=type(first).__name__ if first else None,
             second=type(second).__name__ if second else None)
    res.probe("well-formed model run again after its data file was repaired")
    if first is not None and second is not None:
        frame = innermost_frame(second)
        res.violate("C12.accept", "C12.accept well-formed-model-rejected-after-data-repair %s" % type(second).__name__,
                    "first run failed with %s on a broken data row; after the repair the same program was rejected with %s "
                    "(%s) at %s:%s" % (type(first).__name__, type(second).__name__, str(second).split("\n")[0][:120],
                                       frame[0], frame[1]))


def _preload(sc, log, res, csv):
    """Something the same process did earlier: it must not change what is accepted afterwards."""
    from mpilot.program import Program
    kind = sc.get("preload")
    if not kind:
        return
    log.emit("preload", kind=kind)
    try:
        if kind == "v2":
            col = sc["model"]["table"]["columns"][0]["name"]
            fs = SimFS(log, None, files={sc["model"]["table"]["path"]: csv}, dirs=[WORK])
            with fs, StdCapture(log):
                p = Program.from_source('READ(InFileName = "%s", InFieldName = %s)\nCOPYFIELD(InFieldName = %s, NewFieldName = K)\n'
                                        % (sc["model"]["table"]["path"], col, col), working_dir=WORK)
                p.run()
        elif kind == "netcdf-program":
            Program(libraries=NC_LIBS)
        elif kind == "sibling-library":
            import importlib
            importlib.import_module("mpsim_plugins_x")     # someone else in the process uses the sibling library
        res.probe("earlier in the process: " + kind)
    except Exception as exc:  # noqa
        res.observe("preload failed: %s" % type(exc).__name__)


def _rerun12(sc, res, log, first, fault, label):
    """The client calls run() again on the rejected program: it must be rejected again, before any side effect."""
    program = first["program"]
    fs = first["fs"]
    mon = first["monitor"]
    start = log.seq
    execs0 = sum(mon.counts.values())
    muts0, wo0 = fs.mutations, fs.write_opens
    mon.install(list(program.command_library.values()))
    exc = None
    with fs, StdCapture(log) as cap:
        try:
            program.run()
        except SimAbort:
            return
        except Exception as e:  # noqa
            exc = e
        finally:
            mon.uninstall()
    log.emit("rerun", exc=type(exc).__name__ if exc else None)
    res.probe("run() called again on a rejected program")
    if exc is None:
        res.violate("C12.reject", _sig12("reject accepted-on-second-run", fault),
                    "model with fault [%s] was rejected by the first run() and accepted by the second" % label)
        return
    why = check_expected(exc, fault)
    if why is not None:
        res.violate("C12.error", _sig12("error wrong-rejection-on-second-run", fault, exc),
                    "second run(): fault [%s] rejected with %s: %s" % (label, type(exc).__name__, why))
    execs = sum(mon.counts.values()) - execs0
    if execs or fs.mutations != muts0 or fs.write_opens != wo0 or cap.out.getvalue():
        res.violate("C12.effects", _sig12("effects side-effect-on-second-run", fault),
                    "second run() of the rejected model with fault [%s]: %d commands executed, %d file changes, %d "
                    "write-opens before the rejection" % (label, execs, fs.mutations - muts0, fs.write_opens - wo0))


def _api_recovery12(sc, res, log, csv, fault, label):
    """API route: the program is built with add_command; the faulted command is rejected, the caller catches the error
    and adds the corrected command to the SAME program, which must then be accepted and run."""
    from mpilot.program import Program
    from mpilot.exceptions import MPilotError
    model = sc["model"]
    fs = SimFS(log, res, files={model["table"]["path"]: csv}, dirs=[WORK])
    order = sc.get("order") or list(range(len(model["cmds"])))
    log.emit("route", route="api-recovery")
    with fs, StdCapture(log):
        try:
            program = Program(working_dir=WORK)
            for i in order:
                c = model["cmds"][i]
                args = copy.deepcopy(c["args"])
                cls = program.find_command_class(c["cmd"])
                if c["name"] == fault["target"]:
                    bad = copy.deepcopy(args)
                    if fault["kind"] == "missing-param":
                        bad.pop(fault["param"], None)
                    else:
                        bad["Bogus"] = 1
                    try:
                        program.add_command(cls, c["name"], bad)
                        res.violate("C12.reject", _sig12("reject api-accepted", fault),
                                    "add_command accepted the command with fault [%s]" % label)
                        return
                    except MPilotError:
                        pass
                program.add_command(cls, c["name"], args)
            program.run()
            res.probe("API: rejected add_command corrected on the same program, then accepted")
        except SimAbort:
            return
        except Exception as exc:  # noqa
            res.violate("C12.accept", _sig12("accept api-recovery-rejected", fault, exc),
                        "after add_command rejected fault [%s], adding the corrected command to the same program and "
                        "running it failed with %s: %s" % (label, type(exc).__name__, str(exc)[:120]))


def _fault_label(fault):
    if not fault:
        return "none"
    bits = [fault["kind"], fault.get("cmd", "?")]
    if fault.get("param"):
        bits.append(fault["param"])
    if fault.get("label"):
        bits.append(fault["label"])
    if fault.get("producer") in ("pv", "out"):
        bits.append("producer=" + {"pv": "PrintVars", "out": "EEMSWrite"}[fault["producer"]])
    return " ".join(bits)


def _sig12(what, fault, exc=None):
    """Narrow signature: what went wrong x fault class x (exception and where it came from)."""
    bits = ["C12." + what]
    if fault:
        bits.append(fault["kind"])
        if fault["kind"] == "wrong-kind":
            bits.append("%s<-%s" % (fault.get("pkind"), fault.get("label")))
        if fault.get("producer") in ("pv", "out"):
            bits.append("producer=" + {"pv": "PrintVars", "out": "EEMSWrite"}[fault["producer"]])
    if exc is not None:
        inner = getattr(exc, "exc", None)
        bits.append(type(exc).__name__ + (":" + type(inner).__name__ if isinstance(inner, BaseException) else ""))
        if not _is_mpilot(exc):
            bits.append("at " + ":".join(innermost_frame(exc)))
    return " ".join(bits)


def _is_mpilot(exc):
    return any(c.__name__ == "MPilotError" for c in type(exc).__mro__)


def _judge12(sc, res, log, out, fault, label, paths, route):
    fs = out["fs"]
    if out["outcome"] == "abort":
        return
    if not fault:
        if out["outcome"] != "ok":
            res.violate("C12.accept", _sig12("accept well-formed-model-rejected", None, out["exc"]),
                        "a well-formed model was rejected: %r" % (out["exc"],))
        return
    if out["outcome"] == "ok":
        res.violate("C12.reject", _sig12("reject accepted", fault),
                    "model with fault [%s] was accepted and ran to completion" % label)
        return
    exc = out["exc"]
    why = check_expected(exc, fault)
    if why is not None:
        res.violate("C12.error", _sig12("error wrong-rejection", fault, exc),
                    "fault [%s] was rejected with %s: %s (%s)" % (label, type(exc).__name__, why, str(exc)[:200]))
    execs, writes, stdout = _side_effects_before(log, out["reject_seq"])
    if execs or writes or stdout or fs.mutations:
        res.violate("C12.effects", _sig12("effects side-effect-before-rejection", fault),
                    "fault [%s]: before the rejection %d commands executed, %d files were opened for writing, "
                    "%d writes to stdout, %d file changes" % (label, execs, writes, stdout, fs.mutations))


def _judge12_cli(sc, res, log, lib_out, out, fault, label, paths, start):
    fs = out["fs"]
    if out["outcome"] == "abort":
        return
    if not fault:
        if out["outcome"] != "ok":
            res.violate("C12.accept", _sig12("accept cli-rejected-well-formed-model", None, out["exc"]),
                        "CLI rejected a well-formed model: %r %r" % (out["outcome"], out["exc"]))
        return
    if out["outcome"] == "ok" or (out["outcome"] == "exit" and out["exit_code"] in (0, None)):
        res.violate("C12.cli", _sig12("cli exit-status-zero", fault),
                    "CLI exited with success for a model with fault [%s]" % label)
    ev = log.events[start:out.get("reject_seq", log.seq)]
    execs = sum(1 for k, p in ev if k == "exec-enter")
    writes = sum(1 for k, p in ev if k == "fs" and p.get("op") == "open" and str(p.get("mode", ""))[:1] in "wax")
    stdout = sum(1 for k, p in ev if k == "stdout")
    produced = [p for key, p in paths.items() if key in ("out", "print") and p in fs.files]
    if execs or writes or stdout or produced:
        res.violate("C12.effects", _sig12("effects cli-side-effect-before-rejection", fault),
                    "CLI, fault [%s]: %d commands executed, %d write-opens, %d stdout writes, files produced %r"
                    % (label, execs, writes, stdout, produced))


# ---- chaos ------------------------------------------------------------------------------------------
def _execute13(sc):
    res = RunResult()
    model = sc["model"]
    log = EventLog(cap=8000 + 400 * len(model["cmds"]))
    log.blind_sizes = True      # corrupted tables bring NaN cells: see EventLog
    res.log = log
    faults = sc.get("faults", [])
    log.emit("scenario", prop="C13", route=sc["route"], extra=sc.get("extra"),
             faults=[{k: v for k, v in f.items() if k not in ("value",)} for f in faults])
    if any(f["kind"] == "csv" and f["op"] in ("nan", "inf", "huge") for f in faults):
        log.digest_cut = log.seq      # non-finite data: see EventLog.digest_cut
    if not _in_domain(model, res, log):
        return res
    nodes = build_text(sc)
    for f in faults:
        if f["kind"] == "located":
            g = dict(f)
            g["kind"] = f["fkind"]
            apply_fault(nodes, g)
            res.configured("kind-confusion")
            res.fired("kind-confusion")
    csv = modelgen.csv_text(model["table"])
    for f in faults:
        if f["kind"] == "csv" and f["op"] in ("odd-field-name", "odd-field-name-missing"):
            # a column whose name contains format-like characters ({}, %): present in the file or not
            odd = ODD_NAMES[f["col"] % len(ODD_NAMES)]
            reads = [n for n in nodes if n["cmd"] == "EEMSRead"]
            if reads:
                tgt = reads[f["row"] % len(reads)]
                old_name = None
                for a in tgt["args"]:
                    if a[0] == "InFieldName":
                        old_name, a[1] = a[1], odd
                if f["op"] == "odd-field-name" and isinstance(old_name, str):
                    head, _, rest = csv.partition("\n")
                    cols_ = head.split(",")
                    if old_name in cols_:
                        cols_[cols_.index(old_name)] = odd
                        csv = ",".join(cols_) + "\n" + rest
                        # one non-numeric cell in that column as well, half of the time
                        if f["tok"] % 2 if "tok" in f else f["row"] % 2:
                            body = rest.split("\n")
                            if body and body[0]:
                                cells = body[0].split(",")
                                cells[cols_.index(odd)] = "n/a"
                                body[0] = ",".join(cells)
                                csv = ",".join(cols_) + "\n" + "\n".join(body)
                res.configured("csv-" + f["op"])
                res.fired("csv-" + f["op"])
    more_files = {}
    for f in faults:
        if f["kind"] == "csv" and f["op"] == "second-table":
            # some of the columns are read from a second table of the same layout with another number of rows
            reads = [n for n in nodes if n["cmd"] == "EEMSRead"]
            head, _, rest = csv.partition("\n")
            body = [ln for ln in rest.split("\n") if ln]
            k = 1 + f["col"] % 2
            body2 = body[:-k] if (f["col"] // 2) % 2 and len(body) > k else body + [body[-1] if body else
                                                                                    ",".join("1" for _ in head.split(","))] * k
            picked = [n for i, n in enumerate(reads) if (f["row"] >> i) & 1] or reads[:1]
            for n in picked:
                for a in n["args"]:
                    if a[0] == "InFileName":
                        a[1] = WORK + "/in2.csv"
            more_files[WORK + "/in2.csv"] = head + "\n" + "\n".join(body2) + "\n"
            res.configured("csv-second-table")
            if picked and len(picked) < len(reads):
                res.fired("csv-second-table")
    try:
        text, ledger = render(nodes, sc.get("layout") or PLAIN)
    except ValueError as exc:
        res.observe("unrenderable scenario")
        return res
    paths = _paths(model)
    fs_faults, actor, exec_faults = [], [], []
    undecodable = False
    for f in faults:
        if f["kind"] == "text":
            if f["op"] == "surrogate" and sc["route"] == "cli":
                f = dict(f, op="non-ascii")      # a file cannot deliver a lone surrogate, only a caller of from_source can
            new = corrupt_text(text, f)
            res.configured("text-" + f["op"])
            if new != text:
                res.fired("text-" + f["op"])
            text = new
        elif f["kind"] == "csv" and f["op"] not in ("odd-field-name", "odd-field-name-missing", "second-table"):
            new = corrupt_csv(csv, f)
            res.configured("csv-" + f["op"])
            if new != csv:
                res.fired("csv-" + f["op"])
            csv = new
        elif f["kind"] == "fs":
            p = paths.get(f["which"])
            if p is None:
                continue
            if f["op"] == "undecodable":
                undecodable = True
                continue
            fs_faults.append({"op": f["op"], "path": p, "nth": f.get("nth", 0), "err": f["err"],
                              "after": f.get("after", 0)})
        elif f["kind"] == "actor":
            p = paths.get(f["which"])
            if p is None:
                continue
            do = f["do"]
            step = {"at": {"op": f["at_op"], "path": paths["in"], "nth": f["at_nth"]}, "path": p}
            if do == "replace-garbage":
                step.update(do="replace", content="\x00\x01garbage,,\n1,2\n")
            elif do == "replace-empty":
                step.update(do="replace", content="")
            elif do == "create":
                step.update(do="create", content="stale")
            else:
                step.update(do=do)
            actor.append(step)
        elif f["kind"] == "exec":
            exec_faults.append(dict(f))
            res.configured("exec-" + f["exc"])
    if undecodable:
        csv = csv.encode("utf-8") + b"\xff\xfe,\xc3\n"
        res.configured("fs-undecodable")
        res.fired("fs-undecodable")
    libraries = None
    cli_args = None
    extra = sc.get("extra")
    if extra == "netcdf-missing-variable":
        import os
        nc = os.path.join(os.environ.get("MPSIM_SCRATCH", ""), "repo_test_data", "netcdf_test.nc")
        text = 'X = EEMSRead(InFileName = "%s", InFieldName = nosuchvar)\n' % nc
        cli_args = ["eems-netcdf", MODEL_PATH]
        libraries = ("mpilot.libraries.eems.basic", "mpilot.libraries.eems.netcdf", "mpilot.libraries.eems.fuzzy")
    elif extra == "netcdf-kind-confusion":
        import os
        nc = os.path.join(os.environ.get("MPSIM_SCRATCH", ""), "repo_test_data", "netcdf_test.nc")
        k = sum(len(str(f_.get("op", ""))) for f_ in faults) + len(model["cmds"])
        bad = ('[Fuzzy]', '[K: v]', '5', '"Fuzzy "', '[[Float]]')[k % 5]
        read = 'X = EEMSRead(InFileName = "%s", InFieldName = elevation, DataType = %s)\n' % (nc, bad)
        user = ("Z = FuzzyNot(InFieldName = X)\n", "Z = Sum(InFieldNames = [X, X])\n")[k % 2]
        text = (user + read) if (k // 2) % 2 else (read + user)
        cli_args = ["eems-netcdf", MODEL_PATH]
        libraries = ("mpilot.libraries.eems.basic", "mpilot.libraries.eems.netcdf", "mpilot.libraries.eems.fuzzy")
    elif extra == "duplicate-library":
        cli_args = ["eems-csv", MODEL_PATH, "-l", "mpsim_duplib"]
        libraries = ("mpsim_duplib", "mpilot.libraries.eems.basic", "mpilot.libraries.eems.csv",
                     "mpilot.libraries.eems.fuzzy")
    from mpilot.exceptions import MPilotError
    if sc["route"] == "cli":
        # the CLI reads the file in universal-newline mode: compare it with a library run on the text it will see
        text = text.replace("\r\n", "\n").replace("\n\r", "\n").replace("\r", "\n")
    with Hygiene():
        out = run_once(sc, log, res, "lib", text, csv, copy.deepcopy(fs_faults), copy.deepcopy(actor),
                       copy.deepcopy(exec_faults), libraries=libraries, more_files=more_files)
        lib_kind = _classify(out, MPilotError)
        res.state_keys.add(h64(["lib", lib_kind, type(out["exc"]).__name__ if out["exc"] else None]))
        if lib_kind == "mpilot-error":
            # the problem/solution message must be producible
            try:
                str(out["exc"])
            except Exception as exc2:  # noqa
                frame = innermost_frame(exc2)
                res.violate("C13.message", "C13.message unprintable %s at %s:%s" % (type(exc2).__name__, frame[0], frame[1]),
                            "str() of the %s raised %s: %s [faults: %s]" % (type(out["exc"]).__name__, type(exc2).__name__,
                                                                             str(exc2)[:120], _fault_summary(faults, extra)))
        # ---- follow-up operations on the same program: run again, read results (history after a failure) -----------
        program = out.get("program")
        if program is not None and sc.get("followups") and lib_kind in ("mpilot-error", "success"):
            _followups(sc, res, log, out, program, MPilotError, faults, extra)
        if lib_kind == "escape":
            exc = out["exc"]
            frame = innermost_frame(exc)
            res.violate("C13.escape", "C13.escape %s at %s:%s" % (type(exc).__name__, frame[0], frame[1]),
                        "library route: %s escaped from loading/running: %s [faults: %s]"
                        % (type(exc).__name__, str(exc)[:200], _fault_summary(faults, extra)))
        else:
            res.probe("library outcome: " + lib_kind)
        if sc["route"] == "cli":
            out2 = run_once(sc, log, res, "cli", text, csv, copy.deepcopy(fs_faults), copy.deepcopy(actor),
                            copy.deepcopy(exec_faults), cli_args=cli_args, more_files=more_files)
            _judge13_cli(sc, res, out, lib_kind, out2, faults, extra, MPilotError)
    res.case_key = h64([[c["cmd"] for c in model["cmds"]], faults, extra])
    res.schedule_key = h64([sc.get("order"), faults])
    res.nontrivial = bool(faults) or bool(extra)
    if not faults:
        res.probe("fault-free run")
    return res


def _followups(sc, res, log, first, program, MPilotError, faults, extra):
    """After the first run (failed or not) the client runs again and reads results: the same error lattice applies."""
    fs = first["fs"]
    names = [c["name"] for c in sc["model"]["cmds"]]
    with fs, StdCapture(log):
        for op in sc["followups"]:
            log.emit("op-begin", op=op)
            try:
                if op[0] == "RUN":
                    program.run()
                elif op[0] == "GET":
                    cmd = program.commands.get(names[op[1] % len(names)])
                    if cmd is not None:
                        cmd.result
                outcome = "ok"
            except SimAbort:
                outcome = "abort"
                break
            except SystemExit:
                outcome = "exit"
            except Exception as exc:  # noqa
                outcome = type(exc).__name__
                if not isinstance(exc, (MPilotError, SyntaxError)):
                    frame = innermost_frame(exc)
                    res.violate("C13.escape", "C13.escape-followup %s at %s:%s" % (type(exc).__name__, frame[0], frame[1]),
                                "%r after the first run: %s escaped: %s [faults: %s]"
                                % (op, type(exc).__name__, str(exc)[:160], _fault_summary(faults, extra)))
                    break
            log.emit("op-end", op=op, outcome=outcome)
            res.probe("follow-up operation after the first run: " + ("raised" if outcome not in ("ok",) else "ok"))


def _fault_summary(faults, extra):
    bits = []
    for f in faults:
        if f["kind"] == "located":
            bits.append("%s %s.%s<-%s" % (f["fkind"], f.get("cmd"), f.get("param"), f.get("label")))
        elif f["kind"] in ("text", "csv"):
            bits.append("%s:%s" % (f["kind"], f["op"]))
        elif f["kind"] == "fs":
            bits.append("fs:%s-%s-%s" % (f["op"], f["which"], f["err"]))
        elif f["kind"] == "actor":
            bits.append("actor:%s-%s@%s#%d" % (f["do"], f["which"], f["at_op"], f["at_nth"]))
        elif f["kind"] == "exec":
            bits.append("exec:%s" % f["exc"])
    if extra:
        bits.append(extra)
    return ", ".join(bits) or "none"


def _classify(out, MPilotError):
    if out["outcome"] == "ok":
        return "success"
    if out["outcome"] == "abort":
        return "abort"
    if out["outcome"] == "exit":
        return "exit"
    exc = out["exc"]
    if isinstance(exc, MPilotError):
        return "mpilot-error"
    if isinstance(exc, SyntaxError):
        return "syntax-error"
    return "escape"


def _judge13_cli(sc, res, lib_out, lib_kind, out, faults, extra, MPilotError):
    kind = _classify(out, MPilotError)
    if kind == "abort" or lib_kind == "abort":
        return
    err = out["cap"].err.getvalue()
    sout = out["cap"].out.getvalue()
    summary = _fault_summary(faults, extra)
    # faults on the model file itself happen before parsing begins: recorded, not judged
    if kind == "escape":
        exc = out["exc"]
        frame = innermost_frame(exc)
        if lib_kind != "escape":
            res.violate("C13.escape", "C13.escape-cli %s at %s:%s" % (type(exc).__name__, frame[0], frame[1]),
                        "CLI route: %s escaped: %s [faults: %s]" % (type(exc).__name__, str(exc)[:200], summary))
        return
    if kind == "mpilot-error":
        exc = out["exc"]
        res.violate("C13.cli", "C13.cli mpilot-error-not-reported %s" % type(exc).__name__,
                    "CLI let %s propagate instead of reporting it and exiting non-zero [faults: %s]"
                    % (type(exc).__name__, summary))
        return
    if lib_kind == "mpilot-error" and any(f["kind"] == "csv" and f["op"] in ("nan", "inf", "huge") for f in faults):
        # With not-a-number cells in the data mpilot's curve commands read cells of a numpy.empty buffer they never
        # assigned (DESIGN section 7, observations): whether a later command then fails, and with which numbers in its
        # message, is not a function of the scenario.  The two routes are separate executions, so what the library route
        # did says nothing about what the command-line run met; it is judged on its own.
        res.probe("non-finite data: command-line run judged on its own")
        if kind == "exit" and out["exit_code"] not in (0, None) and not err.strip():
            res.violate("C13.cli", "C13.cli message-not-on-stderr",
                        "CLI exit %r with nothing on stderr [faults: %s]" % (out["exit_code"], summary))
        return
    if lib_kind == "mpilot-error":
        lib_exc = lib_out["exc"]
        if kind == "success" or (kind == "exit" and out["exit_code"] in (0, None)):
            res.violate("C13.cli", "C13.cli exit-zero-on-error",
                        "library route failed with %s but the CLI exited with success [faults: %s]"
                        % (type(lib_exc).__name__, summary))
            return
        if kind == "exit":
            res.probe("CLI reported an MPilot error with non-zero exit")
            hexaddr = re.compile(r"0x[0-9a-fA-F]+")
            first = hexaddr.sub("0x", str(lib_exc).split("\n")[0])[:60]
            err = hexaddr.sub("0x", err)
            if "Problem:" in str(lib_exc) and "Problem:" not in err:
                res.violate("C13.cli", "C13.cli message-not-on-stderr",
                            "CLI exit %r but stderr lacks the problem/solution message (stderr=%r, stdout=%r) "
                            "[faults: %s]" % (out["exit_code"], err[:200], sout[:100], summary))
            elif first and first not in err and not isinstance(getattr(lib_exc, "exc", None), BaseException):
                res.violate("C13.cli", "C13.cli message-not-on-stderr",
                            "CLI stderr does not contain the error's own message %r [faults: %s]" % (first, summary))
            if "Traceback (most recent call last)" in err and type(lib_exc).__name__ != "UnexpectedError":
                res.violate("C13.cli", "C13.cli traceback-on-stderr",
                            "CLI printed a traceback for %s [faults: %s]" % (type(lib_exc).__name__, summary))


# ------------------------------------------------------------------------------------------------
# shrinking and samples
# ------------------------------------------------------------------------------------------------
def shrink_candidates(sc):
    def clone():
        return copy.deepcopy(sc)

    if sc.get("config") == "netcdf":
        if sc.get("layout") != PLAIN:
            c = clone()
            c["layout"] = dict(PLAIN)
            yield c
        if sc.get("order") != sorted(sc.get("order", [])):
            c = clone()
            c["order"] = sorted(c["order"])
            yield c
        return
    model = sc["model"]
    cmds = model["cmds"]
    keep = set()
    f12 = sc.get("fault")
    if f12:
        keep.add(f12["target"])
        if f12.get("producer"):
            keep.add(f12["producer"])
    for f in sc.get("faults", []):
        for k in ("target", "producer", "cmd"):
            if isinstance(f.get(k), str):
                keep.add(f[k])
    # fewer faults (chaos)
    if sc["mode"] == "chaos":
        for i in range(len(sc["faults"])):
            c = clone()
            del c["faults"][i]
            yield c
        if sc.get("route") == "cli":
            c = clone()
            c["route"] = "lib"
            yield c
    elif sc.get("route") == "cli":
        c = clone()
        c["route"] = "lib"
        yield c
    used = set()
    for cm in cmds:
        used.update(eems.refs_of(cm))
    for i in reversed(range(len(cmds))):
        name = cmds[i]["name"]
        if name in used or name in keep or len(cmds) <= 1:
            continue
        c = clone()
        del c["model"]["cmds"][i]
        c["order"] = [j - (1 if j > i else 0) for j in c.get("order", []) if j != i]
        yield c
    # bypass commands
    for i, cm in enumerate(cmds):
        refs = eems.refs_of(cm)
        if cm["cmd"] == "EEMSRead" or not refs or cm["name"] in keep:
            continue
        c = clone()
        tgt, repl = cm["name"], refs[0]
        for other in c["model"]["cmds"]:
            for p in eems.REF_PARAMS:
                v = other["args"].get(p)
                if isinstance(v, list):
                    other["args"][p] = [repl if x == tgt else x for x in v]
                elif v == tgt:
                    other["args"][p] = repl
        del c["model"]["cmds"][i]
        c["order"] = [j - (1 if j > i else 0) for j in c.get("order", []) if j != i]
        yield c
    if sc.get("layout") != PLAIN:
        c = clone()
        c["layout"] = dict(PLAIN)
        yield c
    if sc.get("argseed"):
        c = clone()
        c["argseed"] = 0
        yield c
    if sc.get("order") != sorted(sc.get("order", [])):
        c = clone()
        c["order"] = sorted(c["order"])
        yield c
    cols = model["table"]["columns"]
    nrows = len(cols[0]["values"])
    if nrows > 2:
        for r in range(nrows):
            c = clone()
            for col in c["model"]["table"]["columns"]:
                del col["values"][r]
            c["model"]["table"]["blank_after_rows"] = []
            yield c


def sample(sc):
    nodes = build_text(sc)
    if sc["mode"] == "fault12":
        apply_fault(nodes, sc.get("fault"))
    else:
        for f in sc.get("faults", []):
            if f["kind"] == "located":
                g = dict(f)
                g["kind"] = f["fkind"]
                apply_fault(nodes, g)
    try:
        text, _ = render(nodes, sc.get("layout") or PLAIN)
    except ValueError:
        text = "<unrenderable>"
    out = {"route": sc.get("route"), "command_file_before_text_corruption": text}
    if sc["mode"] == "fault12":
        out["located_fault"] = _fault_label(sc.get("fault"))
    else:
        out["faults"] = _fault_summary(sc.get("faults", []), sc.get("extra"))
    return out
