"""placeholder"""
def generate(*a, **k): raise NotImplementedError
