"""histsim/params - histories of clean() calls interleaved with program runs and file-system
mutations (C20: parameter cleaning is typed, pure and idempotent).

Real: every class of mpilot.params, Program/Command state they consult, the EEMS CSV libraries used
to build the surrounding program.  Stub: SimFS (os.path.exists) and the environment actor.
"""
from __future__ import annotations

import copy

from ..core import EventLog, RunResult, SimAbort, h64
from ..seams import ExecMonitor, Hygiene, StdCapture, innermost_frame
from ..simfs import SimFS

ENGINE = "histsim_params"
BUDGET = {"C20": {"quick": 16000, "thorough": 600000}}
WORK = "/sim/work"

PARAM_ERRORS = ("ParameterNotValid", "PathDoesNotExist", "InvalidRelativePath", "ResultDoesNotExist",
                "ResultTypeNotValid", "ResultNotFuzzy", "ResultIsFuzzy")

# the surrounding program: name -> (command, args, fuzzy?, output kind)
PROGRAM = [
    ("r0", "EEMSRead", {"InFileName": WORK + "/in.csv", "InFieldName": "a"}, False, "data"),
    ("r1", "EEMSRead", {"InFileName": WORK + "/in.csv", "InFieldName": "b"}, False, "data"),
    ("f0", "CvtToFuzzy", {"InFieldName": "r0", "TrueThreshold": 3, "FalseThreshold": 0}, True, "data"),
    ("s0", "Sum", {"InFieldNames": ["r0", "r1"]}, False, "data"),
    ("n0", "FuzzyNot", {"InFieldName": "f0"}, True, "data"),
    ("pv", "PrintVars", {"InFieldNames": ["s0"], "OutFileName": WORK + "/print.txt"}, False, "bool"),
    ("q0", "NoOutput", {}, False, None),      # a plug-in command that declares no output kind
]
LIBS = ("mpilot.libraries.eems.basic", "mpilot.libraries.eems.csv", "mpilot.libraries.eems.fuzzy", "mpsim_plain")
CMD_INFO = {n: {"fuzzy": fz, "out": out} for n, c, a, fz, out in PROGRAM}
IN_CSV = "a,b\n1,2\n3,4\n0,5\n"


# ------------------------------------------------------------------------------------------------
# generation
# ------------------------------------------------------------------------------------------------
# parameter objects as the built-in commands declare them (the same classes, configured by the library, shared by every
# command object of that class)
DECLARED = (
    ({"cls": "String"}, ("mpilot.libraries.eems.fuzzy", "CvtToFuzzy", "Direction")),
    ({"cls": "String"}, ("mpilot.libraries.eems.fuzzy", "CvtToBinary", "Direction")),
    ({"cls": "String"}, ("mpilot.libraries.eems.fuzzy", "FuzzySelectedUnion", "TruestOrFalsest")),
    ({"cls": "String"}, ("mpilot.libraries.eems.csv.io", "EEMSRead", "InFieldName")),
    ({"cls": "Number"}, ("mpilot.libraries.eems.fuzzy", "CvtToFuzzy", "TrueThreshold")),
    ({"cls": "Number"}, ("mpilot.libraries.eems.fuzzy", "FuzzySelectedUnion", "NumberToConsider")),
    ({"cls": "Boolean"}, ("mpilot.libraries.eems.basic", "NormalizeMeanToMid", "IgnoreZeros")),
    ({"cls": "DataType", "cfg": "csv"}, ("mpilot.libraries.eems.csv.io", "EEMSRead", "DataType")),
    ({"cls": "DataType", "cfg": "netcdf"}, ("mpilot.libraries.eems.netcdf.io", "EEMSRead", "DataType")),
    ({"cls": "Path", "must_exist": True}, ("mpilot.libraries.eems.csv.io", "EEMSRead", "InFileName")),
    ({"cls": "Path", "must_exist": False}, ("mpilot.libraries.eems.csv.io", "EEMSWrite", "OutFileName")),
    ({"cls": "List", "of": {"cls": "Number"}}, ("mpilot.libraries.eems.fuzzy", "FuzzyWeightedUnion", "Weights")),
)


def _gen_param(rng, depth=0):
    r = rng.random()
    if depth == 0 and rng.random() < 0.2:
        spec, where = rng.choice(DECLARED)
        return dict(copy.deepcopy(spec), declared=list(where))
    if r < 0.14:
        return {"cls": "Number"}
    if r < 0.24:
        return {"cls": "String"}
    if r < 0.34:
        return {"cls": "Boolean"}
    if r < 0.46:
        return {"cls": "Path", "must_exist": rng.random() < 0.5}
    if r < 0.62:
        return {"cls": "Result", "out": rng.choice(["data", "data", None, "bool"]), "fz": rng.choice([None, None, True, False])}
    if r < 0.70:
        return {"cls": "Tuple"}
    if r < 0.76:
        return {"cls": "DataType", "cfg": rng.choice(["csv", "netcdf"])}
    if r < 0.80:
        return {"cls": "Data"}
    if r < 0.83:
        return {"cls": "Parameter"}
    if depth < 2:
        return {"cls": "List", "of": _gen_param(rng, depth + 1)}
    return {"cls": "Number"}


STRS = ("HighToLow", "LowToHigh", "Truest", "Falsest", "inf", "-Infinity", "1e999", "1e400", "12", "-3", "5.4", "+7", "0", "1", "2.0", "9007199254740993", "-0.0", "007", "true", "False", "TRUE", "maybe",
        "abc", "", "'elev'", '"x"', "''a''", '"\'q\'"', "in.csv", "nofile.csv", "relwork_x.csv", "relwork/in.csv", "/sim/work_in.csv",
        WORK + "/in.csv", WORK + "/nofile.csv", "sub/x.csv", "Float", "Integer", "Positive Float", "Fuzzy", "Complex",
        "r0", "f0", "s0", "pv", "nosuch", "1e3", " 4 ", "0x10", "nan", "1_000")


def _gen_scalar(rng):
    r = rng.random()
    if r < 0.16:
        return {"t": "int", "v": rng.choice([0, 1, 2, -7, 12, 10 ** 12])}
    if r < 0.28:
        return {"t": "float", "v": rng.choice([0.0, 1.0, 5.4, -2.25, 1e-5, 3e20])}
    if r < 0.36:
        return {"t": "bool", "v": rng.random() < 0.5}
    if r < 0.72:
        return {"t": "str", "v": rng.choice(STRS)}
    if r < 0.80:
        return {"t": "cmd", "v": rng.choice(list(CMD_INFO))}
    if r < 0.82:
        return {"t": "cmd2", "v": rng.choice(list(CMD_INFO))}     # the command of ANOTHER program with the same result name
    if r < 0.88:
        return {"t": "type", "v": rng.choice(["float", "int", "numpy.float64", "numpy.uint", "str"])}
    if r < 0.91:
        return {"t": "none"}
    if r < 0.95:
        return {"t": "array", "v": rng.choice(["float", "int", "masked"])}
    return {"t": "dict", "v": rng.choice([{}, {"K": "v"}, {"DisplayName": "The Command", "n": 5}])}


def _takes_arrays(param):
    while param is not None and param["cls"] == "List":
        param = param["of"]
    return param is not None and param["cls"] in ("Data", "Parameter")


def _no_arrays(v):
    if v["t"] == "array":
        return {"t": "none"}
    if v["t"] in ("list", "listarg"):
        return {"t": v["t"], "v": [_no_arrays(x) for x in v["v"]]}
    if v["t"] == "arg":
        return {"t": "arg", "v": _no_arrays(v["v"])}
    return v


def _gen_value(rng, param=None, depth=0):
    v = _gen_value0(rng, param, depth)
    # arrays are raw values only of data parameters (the statement lists int, float, bool, strings, lists, nested
    # lists, dicts and commands for the others)
    return v if _takes_arrays(param) else _no_arrays(v)


def _gen_value0(rng, param=None, depth=0):
    """A raw value, biased towards what the parameter can take so that success paths are common."""
    if param is not None and rng.random() < 0.6:
        c = param["cls"]
        if c == "Number":
            return rng.choice([{"t": "int", "v": 12}, {"t": "float", "v": 5.4}, {"t": "str", "v": "12"},
                               {"t": "str", "v": "5.4"}, {"t": "str", "v": "-3"}, {"t": "int", "v": -7}])
        if c == "Boolean":
            return rng.choice([{"t": "bool", "v": True}, {"t": "str", "v": "true"}, {"t": "str", "v": "False"},
                               {"t": "int", "v": 0}, {"t": "int", "v": 1}, {"t": "str", "v": "1"}, {"t": "str", "v": "0"}])
        if c == "Path":
            return {"t": "str", "v": rng.choice(["in.csv", "nofile.csv", WORK + "/in.csv", WORK + "/nofile.csv",
                                                 "sub/x.csv", WORK + "/print.txt", "relwork_x.csv", "relwork/in.csv",
                                                 "/sim/work_in.csv"])}
        if c == "Result":
            return rng.choice([{"t": "str", "v": rng.choice(list(CMD_INFO) + ["nosuch"])},
                               {"t": "cmd", "v": rng.choice(list(CMD_INFO))},
                               {"t": "cmd", "v": rng.choice(list(CMD_INFO))},
                               {"t": "cmd2", "v": rng.choice(list(CMD_INFO))},
                               {"t": "cmd3", "v": rng.choice(list(CMD_INFO))}])
        if c == "Tuple":
            return rng.choice([{"t": "dict", "v": {"K": "v", "n": 5}}, {"t": "list", "v": []}, {"t": "dict", "v": {}},
                               {"t": "dict", "v": {"Path": "C:\\new\\table", "Note": "a\\\\nb", "Pct": "100%"}}])
        if c == "DataType":
            return rng.choice([{"t": "str", "v": rng.choice(["Float", "Integer", "Positive Float", "Fuzzy"])},
                               {"t": "str", "v": rng.choice(["Float", "Integer", "Positive Float", "Fuzzy"])},
                               # names that are not the documented ones (another case, blanks): no data type is called so
                               {"t": "str", "v": rng.choice(["float", "FLOAT", "integer", " Float", "Float ", "PositiveFloat",
                                                             "positive float", "fuzzy", "Positive_Integer"])},
                               {"t": "type", "v": rng.choice(["float", "int", "numpy.float64"])}])
        if c == "Data":
            return {"t": "array", "v": rng.choice(["float", "int", "masked"])}
        if c == "List" and depth < 3:
            k = rng.choice([0, 1, 2, 3])
            items = [_gen_value0(rng, param["of"], depth + 1) for _ in range(k)]
            if rng.random() < 0.12:
                # items that are equal as numbers but of different kinds, side by side
                same = rng.choice([[{"t": "int", "v": 1}, {"t": "float", "v": 1.0}, {"t": "bool", "v": True}],
                                   [{"t": "float", "v": 2.0}, {"t": "int", "v": 2}, {"t": "str", "v": "2"}],
                                   [{"t": "int", "v": 0}, {"t": "float", "v": 0.0}, {"t": "bool", "v": False}]])
                rng.shuffle(same)
                items = same[:rng.randint(2, 3)] + items[:1]
            wrap = rng.random()
            if wrap < 0.25:
                items = [{"t": "arg", "v": it} if it["t"] not in ("list", "listarg") else it for it in items]
            return {"t": "listarg" if rng.random() < 0.2 else "list", "v": items}
    r = rng.random()
    if r < 0.8 or depth >= 2:
        return _gen_scalar(rng)
    return {"t": "list", "v": [_gen_value0(rng, None, depth + 1) for _ in range(rng.choice([0, 1, 2, 3]))]}


def generate(prop, rng, index, tier):
    nparams = rng.randint(1, 3)
    params = [_gen_param(rng) for _ in range(nparams)]
    values = []
    ops = []
    cleans = []
    for _ in range(rng.randint(3, 15)):
        r = rng.random()
        if r < 0.5 or not cleans:
            pi = rng.randrange(nparams)
            values.append(_gen_value(rng, params[pi]))
            ops.append(["CLEAN", pi, len(values) - 1])
            cleans.append(len(ops) - 1)
        elif r < 0.65:
            k = rng.choice(cleans)
            ops.append(["CLEAN", ops[k][1], ops[k][2]])       # the same raw value again
            cleans.append(len(ops) - 1)
        elif r < 0.82:
            ops.append(["RECLEAN", rng.choice(cleans)])        # clean an already-cleaned value
        elif r < 0.86:
            ops.append(["VALIDATE", rng.choice(["s0", "f0", "r0", "pv"]), rng.random() < 0.3])
        elif r < 0.9:
            ops.append(["RUN"])
        else:
            ops.append(["FS", rng.choice(["delete", "create"]),
                        rng.choice([WORK + "/in.csv", WORK + "/nofile.csv", WORK + "/sub/x.csv"])])
    return {"engine": ENGINE, "prop": "C20", "wd": rng.choice([WORK, WORK, None, "relwork"]),
            "params": params, "values": values, "ops": ops}


# ------------------------------------------------------------------------------------------------
# building parameters and values
# ------------------------------------------------------------------------------------------------
def build_param(spec, P):
    c = spec["cls"]
    if spec.get("declared"):
        import importlib
        mod, cls, pname = spec["declared"]
        param = getattr(importlib.import_module(mod), cls).inputs[pname]
        want = {"Number": P.NumberParameter, "String": P.StringParameter, "Boolean": P.BooleanParameter,
                "DataType": P.DataTypeParameter, "Path": P.PathParameter, "List": P.ListParameter}[c]
        if isinstance(param, want) and (c != "String" or not isinstance(param, P.PathParameter)):
            return param
    if c == "Number":
        return P.NumberParameter()
    if c == "String":
        return P.StringParameter()
    if c == "Boolean":
        return P.BooleanParameter()
    if c == "Path":
        return P.PathParameter(must_exist=spec.get("must_exist", True))
    if c == "Result":
        out = {"data": P.DataParameter(), "bool": P.BooleanParameter(), None: None}[spec.get("out")]
        return P.ResultParameter(out, is_fuzzy=spec.get("fz"))
    if c == "Tuple":
        return P.TupleParameter()
    if c == "Data":
        return P.DataParameter()
    if c == "Parameter":
        return P.Parameter()
    if c == "DataType":
        import numpy
        if spec.get("cfg") == "netcdf":
            return P.DataTypeParameter(valid_types={"Float": numpy.float64, "Integer": int, "Positive Float": numpy.float64,
                                                    "Positive Integer": numpy.uint, "Fuzzy": numpy.float64})
        return P.DataTypeParameter(valid_types={"Float": float, "Integer": int})
    if c == "List":
        return P.ListParameter(build_param(spec["of"], P))
    raise ValueError(c)


def build_value(spec, ctx):
    import numpy
    t = spec["t"]
    if t in ("int", "float", "bool", "str"):
        return spec["v"]
    if t == "none":
        return None
    if t == "cmd":
        return ctx["program"].commands[spec["v"]]
    if t == "cmd2":
        return ctx["program2"].commands[spec["v"]]
    if t == "cmd3":
        # a command object under a result name the program has never heard of (built by hand / taken from elsewhere)
        cache = ctx.setdefault("cmd3", {})
        if spec["v"] not in cache:
            import copy as _copy
            c3 = _copy.copy(ctx["program2"].commands[spec["v"]])
            c3.result_name = "zz_" + spec["v"]
            cache[spec["v"]] = c3
        return cache[spec["v"]]
    if t == "type":
        return {"float": float, "int": int, "numpy.float64": numpy.float64, "numpy.uint": numpy.uint, "str": str}[spec["v"]]
    if t == "array":
        return ctx["arrays"][spec["v"]]
    if t == "dict":
        return dict(spec["v"])
    if t == "list":
        return [build_value(x, ctx) for x in spec["v"]]
    if t == "arg":
        return ctx["Argument"]("X", build_value(spec["v"], ctx), 3)
    if t == "listarg":
        return ctx["ListArgument"]("X", [build_value(x, ctx) for x in spec["v"]], 3, [3] * len(spec["v"]))
    raise ValueError(t)


def kind_of(spec):
    if spec["t"] in ("list", "listarg"):
        inner = sorted({kind_of(x) for x in spec["v"]})
        return "%s[%s]" % (spec["t"], ",".join(inner)[:40])
    if spec["t"] == "arg":
        return "arg(%s)" % kind_of(spec["v"])
    if spec["t"] == "str":
        v = spec["v"]
        if v in CMD_INFO:
            return "str:result-name"
        return "str"
    if spec["t"] == "cmd2":
        return "cmd-of-another-program"
    if spec["t"] == "cmd3":
        return "cmd-with-unknown-name"
    return spec["t"]


def snapshot(v, depth=0):
    """Structure-preserving snapshot: containers by value, opaque objects by identity."""
    import numpy
    if isinstance(v, (list, tuple)):
        return (type(v).__name__, [snapshot(x, depth + 1) for x in v])
    if isinstance(v, dict):
        return ("dict", [(snapshot(k), snapshot(x)) for k, x in v.items()])
    if isinstance(v, numpy.ndarray):
        return ("array", id(v), v.shape, str(v.dtype), v.tobytes(), numpy.ma.getmaskarray(v).tobytes())
    if hasattr(v, "name") and hasattr(v, "value") and hasattr(v, "lineno"):
        return ("Argument", id(v), v.name, snapshot(v.value, depth + 1), v.lineno)
    if isinstance(v, (int, float, str, bool, type(None))):
        return (type(v).__name__, v)
    return ("obj", id(v))


def program_digest(program):
    out = []
    for name, c in program.commands.items():
        out.append((name, id(c), bool(c.is_finished), bool(getattr(c, "is_running", False)), id(c._result),
                    [(a.name, snapshot(a.value), a.lineno) for a in c.arguments]))
    return (out, program.working_dir, sorted(program.command_library))


def equal_values(a, b):
    import numpy
    if isinstance(a, (list, tuple)) and isinstance(b, (list, tuple)):
        return type(a) is type(b) and len(a) == len(b) and all(equal_values(x, y) for x, y in zip(a, b))
    if isinstance(a, dict) and isinstance(b, dict):
        return set(a) == set(b) and all(equal_values(a[k], b[k]) for k in a)
    if isinstance(a, numpy.ndarray) or isinstance(b, numpy.ndarray):
        return a is b
    if isinstance(a, (int, float, str, bool)) and isinstance(b, (int, float, str, bool)):
        return type(a) is type(b) and (a == b or (a != a and b != b))
    return a is b or a == b


# ------------------------------------------------------------------------------------------------
# reference: what clean() must return (refmodel of the documented type table)
# ------------------------------------------------------------------------------------------------
import re
INT_RE = re.compile(r"^[+-]?\d+$")
FLOAT_RE = re.compile(r"^[+-]?(\d+\.\d*|\.\d+|\d+)([eE][+-]?\d+)?$")
UNJUDGED = ("unjudged",)


def expect(spec, value, ctx):
    """-> ("value", v) | ("error", names) | UNJUDGED, for parameter spec and a *built* raw value."""
    import numpy
    import os
    c = spec["cls"]
    Command = ctx["Command"]
    if c == "Parameter":
        return ("value", value)
    if c == "String":
        if isinstance(value, str):
            return ("value", value)
        if isinstance(value, (list, tuple, dict)):
            return ("error", ("ParameterNotValid",))      # a collection is not a string (numbers are turned into text)
        return ("type", str)
    if c == "Number":
        if isinstance(value, bool):
            return UNJUDGED
        if isinstance(value, (int, float)):
            return ("value", value)
        if isinstance(value, str):
            if INT_RE.match(value):
                return ("value", int(value))
            if FLOAT_RE.match(value):
                return ("value", float(value))
            if re.match(r"^[A-Za-z ]*$", value) and value.strip().lower() not in ("nan", "inf", "infinity"):
                return ("error", ("ParameterNotValid",))
            return UNJUDGED          # "0x10", " 4 ", "1_000", "nan": what counts as numeric text is not documented
        if isinstance(value, (numpy.generic,)):
            return UNJUDGED
        return ("error", ("ParameterNotValid",))
    if c == "Boolean":
        if isinstance(value, bool):
            return ("value", value)
        if isinstance(value, int):
            # the 0 / 1 forms; any other integer is not a boolean
            return ("value", bool(value)) if value in (0, 1) else ("error", ("ParameterNotValid",))
        if isinstance(value, str):
            if value.lower() == "true":
                return ("value", True)
            if value.lower() == "false":
                return ("value", False)
            if INT_RE.match(value):
                return ("value", bool(int(value))) if int(value) in (0, 1) else ("error", ("ParameterNotValid",))
            if re.match(r"^[A-Za-z]*$", value):
                return ("error", ("ParameterNotValid",))
            return UNJUDGED
        if isinstance(value, float):
            return UNJUDGED
        return ("error", ("ParameterNotValid",))
    if c == "Path":
        if not isinstance(value, str):
            return ("type-or-error", str)
        wd = ctx["program"].working_dir
        p = value
        if not p.startswith("/"):
            if wd is None:
                return ("error", ("InvalidRelativePath",))
            p = os.path.join(wd, p)
        if spec.get("must_exist", True):
            if p.startswith("/sim"):
                exists = ctx["fs"].files.get(os.path.normpath(p)) is not None or ctx["fs"].isdir(os.path.normpath(p))
            else:
                return UNJUDGED
            if not exists:
                return ("error", ("PathDoesNotExist",))
        return ("value", p)
    if c == "Result":
        cmd = None
        if isinstance(value, str):
            cmd = ctx["program"].commands.get(value)
            if cmd is None:
                return ("error", ("ResultDoesNotExist",))
        elif isinstance(value, Command):
            cmd = value
        else:
            return ("error", ("ParameterNotValid",))
        info = CMD_INFO[cmd.result_name[3:] if cmd.result_name.startswith("zz_") else cmd.result_name]
        errs = []
        if spec.get("fz") is True and not info["fuzzy"]:
            return ("error", ("ResultNotFuzzy",))
        if spec.get("fz") is False and info["fuzzy"]:
            return ("error", ("ResultIsFuzzy",))
        if info["out"] is None and spec.get("out") is not None:
            # the producer declares no output kind: nothing can be checked before it has run; after it has run its
            # value is checked.  Not judged on value - only purity (it must not be executed by the cleaning) is.
            return UNJUDGED
        if spec.get("out") is not None and spec["out"] != info["out"]:
            # finished results are checked by value, unfinished ones by declared kind
            return ("error", ("ResultTypeNotValid", "ParameterNotValid"))
        return ("value", cmd)
    if c == "Tuple":
        if isinstance(value, dict):
            return ("value", {str(k): str(v) for k, v in value.items()})
        if isinstance(value, list) and value == []:
            return ("value", {})
        if isinstance(value, numpy.ndarray):
            return UNJUDGED
        return ("error", ("ParameterNotValid",))
    if c == "Data":
        if isinstance(value, numpy.ndarray):
            return ("value", value)
        return ("error", ("ParameterNotValid",))
    if c == "DataType":
        table = {"Float": numpy.float64, "Integer": int, "Positive Float": numpy.float64, "Positive Integer": numpy.uint,
                 "Fuzzy": numpy.float64} if spec.get("cfg") == "netcdf" else {"Float": float, "Integer": int}
        if isinstance(value, str):
            if value in table:
                return ("value", table[value])
            return ("error", ("ParameterNotValid",))
        if isinstance(value, type):
            if any(value is t for t in table.values()):
                return ("value", value)
            return ("error", ("ParameterNotValid",))
        if isinstance(value, numpy.ndarray):
            return UNJUDGED
        return ("error", ("ParameterNotValid",))
    if c == "List":
        if not isinstance(value, (list, tuple)):
            if hasattr(value, "list_linenos") or (hasattr(value, "value") and hasattr(value, "lineno")):
                return UNJUDGED      # a wrapped argument handed in as the whole value: not a documented form
            return ("error", ("ParameterNotValid",))
        out = []
        for item in value:
            if hasattr(item, "value") and hasattr(item, "lineno") and hasattr(item, "name"):
                item = item.value
            e = expect(spec["of"], item, ctx)
            if e[0] == "error":
                return e
            if e[0] != "value":
                return UNJUDGED
            out.append(e[1])
        return ("value", out)
    return UNJUDGED


# ------------------------------------------------------------------------------------------------
# execution
# ------------------------------------------------------------------------------------------------
def execute(sc):
    import numpy
    from mpilot import params as P
    from mpilot.program import Program
    from mpilot.commands import Command
    from mpilot.arguments import Argument, ListArgument
    from mpilot.exceptions import MPilotError

    res = RunResult()
    log = EventLog(cap=20000)
    res.log = log
    log.emit("scenario", prop="C20", nops=len(sc["ops"]), wd=sc.get("wd"))
    fs = SimFS(log, res, files={WORK + "/in.csv": IN_CSV}, dirs=[WORK, WORK + "/sub", "/sim/relwork"])
    mon = ExecMonitor(log)
    with Hygiene(), fs, StdCapture(log):
        program = Program(libraries=LIBS, working_dir=sc.get("wd"))
        program2 = Program(libraries=LIBS, working_dir=sc.get("wd"))
        for name, cmd, args, fz, out in PROGRAM:
            program.add_command(program.find_command_class(cmd), name, copy.deepcopy(args))
            program2.add_command(program2.find_command_class(cmd), name, copy.deepcopy(args))
        mon.install(list(program.command_library.values()))
        try:
            ctx = {"program": program, "program2": program2, "Command": Command, "Argument": Argument, "ListArgument": ListArgument, "fs": fs,
                   "arrays": {"float": numpy.array([1.5, 2.0]), "int": numpy.array([1, 2, 3]),
                              "masked": numpy.ma.array([1.0, 2.0], mask=[False, True])}}
            params = [build_param(s, P) for s in sc["params"]]
            results = {}     # op index -> ("value", v) | ("error", exc)
            seen = {}        # (param index, value index, fs epoch, finished?) -> op index of first clean
            epoch = 0
            ran = False
            for oi, op in enumerate(sc["ops"]):
                log.emit("op-begin", op=op)
                if op[0] == "RUN":
                    try:
                        program.run()
                        ran = True
                        res.probe("program run between cleans (referenced commands become finished)")
                    except MPilotError as exc:
                        res.observe("surrounding program failed to run: %s" % type(exc).__name__)
                    epoch += 1
                    continue
                if op[0] == "VALIDATE":
                    # Command.validate_params with the caller's own mapping: it must not be consumed or altered, and a
                    # second validation of the same mapping must give an equal answer
                    cmd = program.commands[op[1]]
                    raw = {a.name: a.value for a in cmd.arguments}
                    if op[2]:
                        raw["Bogus"] = 1
                    before = snapshot(raw)
                    outs = []
                    for _ in range(2):
                        try:
                            outs.append(("value", cmd.validate_params(raw)))
                        except MPilotError as exc:
                            outs.append(("error", type(exc).__name__))
                        except Exception as exc:  # noqa
                            outs.append(("raise", type(exc).__name__))
                            res.violate("C20.raise", "C20.raise %s from validate_params" % type(exc).__name__,
                                        "validate_params raised %s" % type(exc).__name__)
                    log.emit("validate", cmd=op[1], outcome=[o[0] for o in outs])
                    if snapshot(raw) != before:
                        res.violate("C20.pure", "C20.pure raw-argument-altered validate_params",
                                    "validate_params altered the caller's parameter mapping of %s" % op[1])
                    elif outs[0][0] != outs[1][0] or (outs[0][0] == "value" and not equal_values(outs[0][1], outs[1][1])):
                        res.violate("C20.repeat", "C20.repeat same-raw-value-different-result validate_params",
                                    "two validations of the same mapping gave %r and %r" % (outs[0][0], outs[1][0]))
                    else:
                        res.probe("validate_params twice on the caller's mapping")
                    continue
                if op[0] == "FS":
                    if op[1] == "delete":
                        fs.files.pop(op[2], None)
                    else:
                        fs.files[op[2]] = b"a,b\n9,9\n8,8\n7,7\n"
                    fs.mutations += 1
                    epoch += 1
                    log.emit("actor", do=op[1], path=op[2])
                    res.fired("actor-" + op[1])
                    continue
                if op[0] == "CLEAN":
                    pi, vi = op[1] % len(params), op[2] % len(sc["values"])
                    pspec, vspec = sc["params"][pi], sc["values"][vi]
                    raw = build_value(vspec, ctx)
                    mode = "clean"
                else:
                    prev = results.get(op[1])
                    if prev is None or prev[0] != "value":
                        continue
                    pi = prev[2]
                    pspec = sc["params"][pi]
                    vspec = {"t": "cleaned"}
                    raw = prev[1]
                    mode = "reclean"
                _clean_once(sc, res, log, mon, fs, program, params[pi], pspec, vspec, raw, mode, oi, pi, results, seen,
                            epoch, ctx, op, MPilotError)
        finally:
            mon.uninstall()
    res.case_key = h64([sc["params"], sc["values"], sc["ops"], sc.get("wd")])
    res.schedule_key = h64([op[0] for op in sc["ops"]])
    res.nontrivial = sum(1 for op in sc["ops"] if op[0] in ("CLEAN", "RECLEAN")) >= 2
    return res


def _pname(pspec):
    if pspec["cls"] == "List":
        return "List<%s>" % _pname(pspec["of"])
    return pspec["cls"]


def _clean_once(sc, res, log, mon, fs, program, param, pspec, vspec, raw, mode, oi, pi, results, seen, epoch, ctx, op,
                MPilotError):
    pname = _pname(pspec)
    vkind = kind_of(vspec) if mode == "clean" else "cleaned"
    before_raw = snapshot(raw)
    before_prog = program_digest(program)
    enters = sum(mon.counts.values())
    muts, wopens = fs.mutations, fs.write_opens
    exp = expect(pspec, raw, ctx) if mode == "clean" else None
    try:
        out = param.clean(raw, program, 7)
        outcome = ("value", out, pi)
    except SimAbort:
        raise
    except Exception as exc:  # noqa
        outcome = ("error", exc, pi)
    results[oi] = outcome
    log.emit("clean", param=pname, raw=vkind, mode=mode,
             outcome=outcome[0] if outcome[0] == "value" else type(outcome[1]).__name__)
    res.state_keys.add(h64([pname, vkind, outcome[0] if outcome[0] == "value" else type(outcome[1]).__name__,
                            program.working_dir is None]))
    # ---- (5) cleaning must not run commands or write files ------------------------------------------
    if sum(mon.counts.values()) != enters:
        res.violate("C20.pure", "C20.pure clean-executed-a-command %s" % pname,
                    "cleaning %s for %s executed %d command(s)" % (vkind, pname, sum(mon.counts.values()) - enters))
    if fs.mutations != muts or fs.write_opens != wopens:
        res.violate("C20.pure", "C20.pure clean-wrote-files %s" % pname, "cleaning %s for %s changed files" % (vkind, pname))
    # ---- (4) purity: raw argument and program unchanged ------------------------------------------------
    if snapshot(raw) != before_raw:
        res.violate("C20.pure", "C20.pure raw-argument-altered %s" % pname,
                    "cleaning altered the raw %s argument given for %s" % (vkind, pname))
    if program_digest(program) != before_prog:
        res.violate("C20.pure", "C20.pure program-altered %s" % pname,
                    "cleaning %s for %s altered the program" % (vkind, pname))
    # ---- (1) typed result or the parameter error ---------------------------------------------------------
    if outcome[0] == "error":
        exc = outcome[1]
        cls_names = [k.__name__ for k in type(exc).__mro__]
        if not any(n in PARAM_ERRORS for n in cls_names):
            frame = innermost_frame(exc)
            res.violate("C20.raise", "C20.raise %s from %s raw=%s" % (type(exc).__name__, frame[1], vkind.split("[")[0]),
                        "cleaning %s for %s raised %s: %s" % (vkind, pname, type(exc).__name__, str(exc)[:120]))
        elif exp is not None and exp[0] == "value":
            res.violate("C20.type", "C20.type valid-value-rejected %s raw=%s" % (pname, vkind.split("[")[0]),
                        "cleaning %r for %s raised %s; the documented result is %r"
                        % (_short(raw), pname, type(exc).__name__, _short(exp[1])))
        elif exp is not None and exp[0] == "error" and not any(n in exp[1] for n in cls_names):
            res.violate("C20.type", "C20.type wrong-error %s %s" % (pname, type(exc).__name__),
                        "cleaning %r for %s raised %s, expected %s" % (_short(raw), pname, type(exc).__name__, exp[1]))
        else:
            res.probe("rejected with the parameter error")
    else:
        out = outcome[1]
        if exp is not None:
            if exp[0] == "error":
                res.violate("C20.type", "C20.type invalid-value-accepted %s raw=%s" % (pname, vkind.split("[")[0]),
                            "cleaning %r for %s returned %r; a parameter error (%s) is documented"
                            % (_short(raw), pname, _short(out), "/".join(exp[1])))
            elif exp[0] == "value":
                if not equal_values(out, exp[1]):
                    res.violate("C20.type", "C20.type wrong-value-or-type %s raw=%s" % (pname, vkind.split("[")[0]),
                                "cleaning %r for %s returned %r (%s), documented: %r (%s)"
                                % (_short(raw), pname, _short(out), type(out).__name__, _short(exp[1]),
                                   type(exp[1]).__name__))
                else:
                    res.probe("returned the documented typed value")
            elif exp[0] in ("type", "type-or-error"):
                if not isinstance(out, exp[1]):
                    res.violate("C20.type", "C20.type wrong-type %s raw=%s" % (pname, vkind.split("[")[0]),
                                "cleaning %r for %s returned a %s" % (_short(raw), pname, type(out).__name__))
        # ---- (3) idempotence ------------------------------------------------------------------------------
        if mode == "reclean":
            prev = raw
            path_rel = "Path" in pname and not (isinstance(program.working_dir, str)
                                                 and program.working_dir.startswith("/"))
            if not path_rel:
                if not equal_values(out, prev):
                    res.violate("C20.idem", "C20.idem cleaned-value-changed %s" % pname,
                                "cleaning the already-cleaned %r again for %s gave %r" % (_short(prev), pname, _short(out)))
                else:
                    res.probe("already-cleaned value returned unchanged")
    if mode == "reclean" and outcome[0] == "error":
        path_rel = "Path" in pname and not (isinstance(program.working_dir, str) and program.working_dir.startswith("/"))
        fs_dep = pspec["cls"] == "Path" or (pspec["cls"] == "List" and "Path" in _pname(pspec))
        if not path_rel and not fs_dep:
            # results / data may legitimately be re-judged after a RUN (finished branch); only pure-value kinds are judged
            if _pname(pspec).replace("List<", "").rstrip(">") in ("Number", "String", "Boolean", "Tuple", "DataType", "Parameter"):
                res.violate("C20.idem", "C20.idem cleaned-value-rejected %s" % pname,
                            "cleaning the already-cleaned %r again for %s raised %s"
                            % (_short(raw), pname, type(outcome[1]).__name__))
    # ---- (2) repeat equality under equal file-system and program state ------------------------------------------
    if mode == "clean":
        key = (pi, op[2], epoch)
        if key in seen:
            first = results[seen[key]]
            same = (first[0] == outcome[0]) and (
                equal_values(first[1], outcome[1]) if outcome[0] == "value" else type(first[1]) is type(outcome[1]))
            if not same:
                res.violate("C20.repeat", "C20.repeat same-raw-value-different-result %s" % pname,
                            "cleaning %r for %s gave %r first and %r now" % (_short(raw), pname, _short(first[1]),
                                                                             _short(outcome[1])))
            else:
                res.probe("same raw value cleaned again with an equal result")
        seen.setdefault(key, oi)


def _short(v):
    s = repr(v)
    s = re.sub(r"0x[0-9a-f]+", "0x", s)
    return s[:80]


def worker_init(scratch):
    from mpilot.program import Program
    Program(libraries=LIBS)


def shrink_candidates(sc):
    def clone():
        return copy.deepcopy(sc)

    for i in range(len(sc["ops"])):
        if len(sc["ops"]) > 1:
            c = clone()
            removed = c["ops"].pop(i)
            # RECLEAN refers to op indices: re-index
            ok = True
            for op in c["ops"]:
                if op[0] == "RECLEAN":
                    if op[1] == i:
                        ok = False
                    elif op[1] > i:
                        op[1] -= 1
            if ok:
                yield c
    for vi, v in enumerate(sc["values"]):
        if v["t"] in ("list", "listarg") and v["v"]:
            for j in range(len(v["v"])):
                c = clone()
                del c["values"][vi]["v"][j]
                yield c
            c = clone()
            c["values"][vi]["t"] = "list"
            yield c
        if v["t"] == "arg":
            c = clone()
            c["values"][vi] = v["v"]
            yield c
    for pi, p in enumerate(sc["params"]):
        if p["cls"] == "List" and p["of"]["cls"] == "List":
            c = clone()
            c["params"][pi] = p["of"]
            yield c
    if sc.get("wd") != WORK:
        c = clone()
        c["wd"] = WORK
        yield c


def sample(sc):
    return {"working_dir": sc.get("wd"), "parameters": [_pname(p) for p in sc["params"]],
            "history": [op if op[0] != "CLEAN" else ["CLEAN", _pname(sc["params"][op[1] % len(sc["params"])]),
                                                      sc["values"][op[2] % len(sc["values"])]] for op in sc["ops"]]}


RULES = {
    "C20": "Each case = a history of 3-15 operations on 1-3 parameter instances (every class of mpilot.params in the "
           "configurations the libraries use, nested lists up to depth 3): CLEAN(parameter, raw value), the same CLEAN "
           "again, RECLEAN (clean an already-cleaned value), RUN of the surrounding 6-command program (switches "
           "result cleaning to its finished branch), FS mutation by the environment actor; raw values of every kind "
           "the parser or API delivers (int, float, bool, string forms, lists, nested lists, Argument/ListArgument "
           "wrapped, dicts, command objects, arrays, types, None), with an absolute, a relative and no working "
           "directory. Distinct = distinct hash of (parameters, values, history, working directory); non-trivial = "
           "at least two clean operations.",
}
ASSUMPTIONS = {
    "C20": [
        "documented type table written as a reference function (integers stay integers, decimals decimals, booleans "
        "from true/false/0/1 forms, relative paths joined to the working directory, data-type names mapped to types, "
        "lists item-wise); forms the documentation does not settle (bool for a number, ' 4 ', '0x10', 'nan', floats "
        "for a boolean, non-strings for a path) are not judged on value, only on exception class and purity",
        "repeat-equality compares under an equal file-system epoch and program state; idempotence of paths is judged "
        "under an absolute working directory only",
    ],
}
COMPONENTS = {
    "real": ["mpilot.params (all classes)", "mpilot.program.Program / add_command / run", "mpilot.commands.Command",
             "mpilot.arguments", "mpilot.libraries.eems (surrounding program)"],
    "stub": ["file system: SimFS behind os.path.exists / open", "environment actor"],
}


STATE_MEASURE = {'C20': 'abstract state = (parameter class, raw value kind, outcome class, working directory present); schedule key = sequence of operation kinds'}
