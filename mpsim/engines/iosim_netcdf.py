"""iosim/netcdf - write -> read histories through the real netCDF4 library (C18).

The C library takes paths, so this engine runs on REAL files in a per-run scratch directory (removed
after the run) and injects only whole-file conditions; the evidence says "file system real, not
simulated".  Real: netcdf EEMSRead / EEMSWrite, Program.add_command, Command.run, params, netCDF4/HDF5.
Oracle: an in-memory dataset model.
"""
from __future__ import annotations

import copy
import os
import shutil
import tempfile

from ..core import EventLog, RunResult, SimAbort, HarnessError, h64
from ..seams import ExecMonitor, Hygiene, StdCapture

ENGINE = "iosim_netcdf"
BUDGET = {"C18": {"quick": 8000, "thorough": 60000}}
NETCDF_LIBS = ("mpilot.libraries.eems.basic", "mpilot.libraries.eems.netcdf", "mpilot.libraries.eems.fuzzy")
DTYPES = ("Float", "Integer", "Positive Float", "Positive Integer", "Fuzzy")


def generate(prop, rng, index, tier):
    rank = rng.choice([1, 2, 2, 2, 3])
    dims = []
    for i in range(rank):
        dims.append([["y", "x", "t"][i] if rng.random() < 0.8 else "d%d" % i, rng.choice([1, 2, 3, 4, 5])])
    if len({d[0] for d in dims}) != len(dims):
        dims = [["d%d" % i, n] for i, (_, n) in enumerate(dims)]
    ncell = 1
    for _, n in dims:
        ncell *= n
    template = {
        "dims": dims,
        "coords": {d: {"dtype": rng.choice(["f8", "f4", "i4", "i2"]), "packed": rng.random() < 0.2,
                       "values": [rng.randint(-50, 50) * (1 if rng.random() < 0.5 else 0.5) for _ in range(n)],
                       "attrs": ({"units": rng.choice(["m", "degrees_north"]), "long_name": d + " axis"}
                                 if rng.random() < 0.6 else {})} for d, n in dims},
        "var": {"name": "elev", "dtype": rng.choice(["i2", "f4", "f8"]), "fill": rng.choice([None, -1, -9999])},
        "crs": rng.choice([False, False, False, True, True, "int-with-fill"]),
        # the data model of the template file (what the grid was exported as) is not the writer's business
        "format": rng.choice(["NETCDF4", "NETCDF4", "NETCDF4_CLASSIC", "NETCDF3_CLASSIC", "NETCDF3_64BIT_OFFSET"]),
    }
    for d, n in dims:
        c = template["coords"][d]
        if c["dtype"].startswith("i"):
            c["values"] = [int(v) for v in c["values"]]
        if rng.random() < 0.1:
            c["absent"] = True         # a dimension without a coordinate variable (plain index dimension)
        elif rng.random() < 0.15 and not c["packed"]:
            # a declared valid range that some of the coordinate values lie outside of (longitudes 0..360 with -180/180)
            c["attrs"] = dict(c["attrs"], valid_min=-10, valid_max=10) if rng.random() < 0.5 else \
                dict(c["attrs"], valid_range=[-10, 10])
        if not c["packed"] and rng.random() < 0.25:
            # a coordinate variable that declares a fill value (what xarray writes for every float coordinate)
            c["fill"] = "nan" if c["dtype"].startswith("f") and rng.random() < 0.6 else -32768
    ngrids = rng.randint(1, 4)
    grids = []
    for g in range(ngrids):
        is_int = rng.random() < 0.3
        kind = rng.choice(["plain", "plain", "fuzzy", "positive", "mixed"])
        vals = []
        for _ in range(ncell):
            if kind == "fuzzy":
                v = rng.randint(-8, 8) / 8.0
            elif kind == "positive":
                v = rng.randint(0, 40) / 4.0
            elif kind == "mixed":
                v = rng.choice([-2.5, -1.0, 0.0, 0.5, 1.0, 1.25, 3.0, 100.0])
            else:
                v = rng.randint(-80, 80) / 8.0
            if is_int:
                v = int(round(v * 4))
            vals.append(v)
        mk = rng.choice(["nomask", "allfalse", "some", "some", "some", "all"]) if g else rng.choice(["nomask", "allfalse", "some", "some"])
        mask = [False] * ncell
        if is_int and rng.random() < 0.3:
            vals[rng.randrange(ncell)] = rng.choice([2 ** 53 + 1, -(2 ** 53) - 1, 2 ** 62])   # exact only as integers
        if mk == "all":
            mask = [True] * ncell
        if mk == "some":
            for _ in range(rng.randint(1, max(1, ncell // 3))):
                mask[rng.randrange(ncell)] = True
        if not is_int and kind in ("plain", "mixed") and rng.random() < 0.12:
            # not-a-number and infinite cells are ordinary floating-point values for a grid (kept as text in the scenario)
            for _ in range(rng.choice([1, 1, 2])):
                vals[rng.randrange(ncell)] = rng.choice(["nan", "nan", "inf", "-inf"])
        if kind in ("plain", "mixed", "positive") and rng.random() < 0.08:
            # a genuine value that happens to equal numpy's default fill value for its element type
            vals[rng.randrange(ncell)] = 999999 if is_int else 1e20
        gdt = "i8" if is_int else "f8"
        if is_int and all(v >= 0 for v in vals) and rng.random() < 0.5:
            gdt = "u8"          # what a read with DataType = Positive Integer produces
            if rng.random() < 0.3:
                vals[rng.randrange(ncell)] = rng.choice([2 ** 63 + 5, 2 ** 64 - 1])
        grids.append({"name": "g%d" % g, "dtype": gdt, "kind": kind, "values": vals,
                      "mask": mask, "maskkind": mk})
        if rng.random() < 0.2:
            # the result carries a fill value of its own (as results of EEMSRead and of other tools do)
            grids[-1]["fill"] = rng.choice(["nan", "inf", -9999.0, 0.0]) if gdt == "f8" else rng.choice([-1, 0, 255])
    reads = []
    for _ in range(rng.randint(1, 4)):
        g = rng.randrange(ngrids)
        rd = {"grid": g, "dtype": rng.choice([None, None] + list(DTYPES)), "missing": None}
        if any(isinstance(v, str) for v in grids[g]["values"]) and rd["dtype"] in ("Integer", "Positive Integer"):
            rd["dtype"] = rng.choice([None, "Float", "Positive Float", "Fuzzy"])   # nan -> integer is nobody's promise
        if rd["dtype"] and rng.random() < 0.12:
            # the type name spelled loosely: rejected, or - if an implementation accepts it - honoured like the real name
            nm = rd["dtype"]
            rd["spelling"] = rng.choice([nm.lower(), nm.upper(), nm.replace(" ", ""), nm.replace(" ", "_"), " " + nm, nm + " "])
        if rng.random() < 0.4:
            present = [v for v, m in zip(grids[g]["values"], grids[g]["mask"]) if not m and not isinstance(v, str)]
            rd["missing"] = rng.choice(present) if present and rng.random() < 0.7 else -12345
        reads.append(rd)
    # API clients sometimes build the command first and set / change its arguments before running it
    for rd in reads:
        if rng.random() < 0.15 and not rd.get("spelling"):
            rd["built_with_dtype"] = rng.choice([None] + list(DTYPES))
    # a value that is close to, but not equal to, the missing value must stay a value
    for rd in reads:
        g = grids[rd["grid"]]
        if rd["missing"] is not None and g["dtype"] == "f8" and rng.random() < 0.5:
            free = [i for i, m in enumerate(g["mask"]) if not m and not isinstance(g["values"][i], str)]
            if free:
                mv = float(rd["missing"])
                g["values"][rng.choice(free)] = rng.choice([mv + 4e-9, mv * (1 + 2e-6) if mv else 1e-9, mv - 3e-8])
    if rng.random() < 0.1:
        reads.append({"grid": 0, "dtype": None, "missing": None, "nosuch": True})
    # a later write of some of the same results on their own, read back as well
    second = None
    if ngrids >= 2 and rng.random() < 0.4:
        k = rng.randint(1, ngrids - 1)
        second = {"grids": rng.sample(range(ngrids), k), "reads": [{"grid_pos": rng.randrange(k), "dtype": rng.choice([None, "Float"]),
                                                                    "missing": None}],
                  # the template file is regenerated (other coordinate values) at the same path before the second write
                  "regen_template": rng.random() < 0.5}
    # reads of the template's own variable (stored with a negative fill value and some missing cells)
    treads = []
    if rng.random() < 0.35:
        treads.append({"dtype": rng.choice(["Positive Float", "Positive Integer", None, "Integer"])})
    if template["var"]["dtype"] in ("f4", "f8") and rng.random() < 0.3:
        # the variable holds tenths (not representable in binary) and one of them is declared the missing value: the
        # comparison is in the variable's own precision (a float32 0.3 is the 0.3 the user means)
        template["var"]["tenths"] = True
        treads.append({"dtype": rng.choice([None, "Float", "Positive Float"]), "missing_cell": rng.randrange(ncell)})
    order = list(range(ngrids))
    rng.shuffle(order)
    template["var"]["missing_cells"] = sorted(rng.sample(range(ncell), rng.randint(0, max(0, ncell // 3)))) \
        if template["var"]["fill"] is not None else []
    odd_shape = None
    if rng.random() < 0.06:
        # the results have another shape than the template's variable (one that numpy would broadcast)
        full = [n for _, n in dims]
        cands = [full[1:]] if len(full) >= 2 else [[]]
        cands += [[1 if i == k else n for i, n in enumerate(full)] for k in range(len(full)) if full[k] != 1]
        cands = [c for c in cands if c != full]
        if cands:
            odd_shape = rng.choice(cands)
    overwrite = None
    if rng.random() < 0.25:
        overwrite = {"grid": rng.randrange(ngrids), "dtype": rng.choice(["f8", "i8"]), "masked": rng.random() < 0.5,
                     "salt": rng.randrange(50)}
    return {"engine": ENGINE, "prop": "C18", "template": template, "grids": grids, "write_order": order, "reads": reads,
            "second_write": second, "template_reads": treads, "overwrite": overwrite, "odd_shape": odd_shape}


# ------------------------------------------------------------------------------------------------
def _make_template(path, t):
    import numpy
    from netCDF4 import Dataset
    with Dataset(path, "w", format=t.get("format") or "NETCDF4") as ds:
        for d, n in t["dims"]:
            ds.createDimension(d, n)
        for d, n in t["dims"]:
            c = t["coords"][d]
            if c.get("absent"):
                continue
            if c.get("packed"):
                # a packed coordinate: int16 on disk, scale_factor / add_offset give the real values
                v = ds.createVariable(d, "i2", (d,))
                v.setncattr("scale_factor", 0.25)
                v.setncattr("add_offset", 40.5)
                v[:] = numpy.array([40.5 + 0.25 * int(x) for x in c["values"]])
            else:
                kwc = {}
                if c.get("fill") is not None:
                    kwc["fill_value"] = float("nan") if c["fill"] == "nan" else c["fill"]
                v = ds.createVariable(d, c["dtype"], (d,), **kwc)
                v[:] = numpy.array(c["values"], dtype=c["dtype"])
            for k, a in sorted(c["attrs"].items()):
                v.setncattr(k, a)
        if t["crs"] == "int-with-fill":
            crs = ds.createVariable("crs", "i4", (), fill_value=-2147483647)
            crs.setncattr("grid_mapping_name", "latitude_longitude")
            crs.setncattr("semi_major_axis", 6378137.0)
        elif t["crs"]:
            crs = ds.createVariable("crs", "S1", ())
            crs.setncattr("grid_mapping_name", "latitude_longitude")
            crs.setncattr("semi_major_axis", 6378137.0)
        var = t["var"]
        kw = {"fill_value": var["fill"]} if var["fill"] is not None else {}
        v = ds.createVariable(var["name"], var["dtype"], tuple(d for d, _ in t["dims"]), **kw)
        shape = tuple(n for _, n in t["dims"])
        base = numpy.ma.array(numpy.arange(int(numpy.prod(shape))).reshape(shape).astype(var["dtype"]))
        if var.get("tenths"):
            base = numpy.ma.array((numpy.arange(int(numpy.prod(shape))) * 0.1).reshape(shape).astype(var["dtype"]))
        miss = [i for i in (var.get("missing_cells") or []) if i < int(numpy.prod(shape))]
        if miss:
            m = numpy.zeros(int(numpy.prod(shape)), dtype=bool)
            m[miss] = True
            base = numpy.ma.array(base.data, mask=m.reshape(shape))
        v[:] = base
        if t["crs"]:
            v.setncattr("grid_mapping", "crs")
            v.setncattr("esri_pe_string", 'GEOGCS["GCS_WGS_1984"]')


def execute(sc):
    import numpy
    from netCDF4 import Dataset
    from mpilot.program import Program
    from mpilot.commands import Command
    from mpilot.exceptions import MPilotError

    res = RunResult()
    log = EventLog(cap=20000)
    res.log = log
    t = sc["template"]
    shape = tuple(n for _, n in t["dims"])
    for g in sc["grids"]:
        g["values"] = [float(v) if isinstance(v, str) else v for v in g["values"]]     # "nan", "inf", "-inf"
    log.emit("scenario", prop="C18", shape=list(shape), ngrids=len(sc["grids"]), nreads=len(sc["reads"]))
    scratch = os.environ.get("MPSIM_SCRATCH")
    if not scratch:
        raise HarnessError("MPSIM_SCRATCH not set")
    root = tempfile.mkdtemp(prefix="nc-", dir=os.path.join(scratch, "work"))
    try:
        with Hygiene(), StdCapture(log):
            tmpl = os.path.join(root, "template.nc")
            _make_template(tmpl, t)
            program = Program(libraries=NETCDF_LIBS, working_dir=root)
            mon = ExecMonitor(log)
            mon.install(list(program.command_library.values()))
            try:
                arrays = {}
                odd = sc.get("odd_shape")
                if odd is not None and tuple(odd) != tuple(shape):
                    # every result has the odd shape; the write must be refused, not broadcast into the template's shape
                    k = int(numpy.prod(odd)) if odd else 1
                    for g in sc["grids"]:
                        data = numpy.array([float(v) if isinstance(v, float) and v == v else 1.0 for v in g["values"][:k]] or [1.0],
                                           dtype="float64").reshape(tuple(odd))
                        cmd = Command(g["name"])
                        cmd.is_finished = True
                        cmd._result = numpy.ma.array(data, mask=numpy.zeros(tuple(odd), dtype=bool))
                        program.commands[g["name"]] = cmd
                    names = [sc["grids"][i]["name"] for i in sc["write_order"]]
                    program.add_command(program.find_command_class("EEMSWrite"), "__write__",
                                        {"OutFileName": "out.nc", "OutFieldNames": names, "DimensionFileName": tmpl,
                                         "DimensionFieldName": t["var"]["name"]})
                    log.emit("op-begin", op="WRITE-ODD-SHAPE", shape=list(odd))
                    try:
                        program.commands["__write__"].run()
                        err = None
                    except SimAbort:
                        raise
                    except Exception as exc:  # noqa
                        err = exc
                    res.probe("results of another shape than the template's variable")
                    if err is None:
                        res.violate("C18.write", "C18.write mis-shaped-result-accepted",
                                    "results of shape %r were written into a template variable of shape %r without complaint"
                                    % (tuple(odd), tuple(shape)))
                    elif not isinstance(err, MPilotError):
                        res.violate("C18.write", "C18.write raised %s odd-shape" % type(err).__name__, repr(err)[:200])
                    return _finish(sc, res)
                for g in sc["grids"]:
                    data = numpy.array(g["values"], dtype={"i8": "int64", "u8": "uint64"}.get(g["dtype"], "float64")).reshape(shape)
                    if g["maskkind"] == "nomask":
                        arr = numpy.ma.array(data)
                    else:
                        arr = numpy.ma.array(data, mask=numpy.array(g["mask"], dtype=bool).reshape(shape))
                    if g.get("fill") is not None:
                        fv = float(g["fill"]) if isinstance(g["fill"], str) else g["fill"]
                        if not (g["dtype"] == "u8" and fv < 0):
                            arr.fill_value = fv
                            res.probe("result with a fill value of its own")
                    cmd = Command(g["name"])
                    cmd.is_finished = True
                    cmd._result = arr
                    program.commands[g["name"]] = cmd
                    arrays[g["name"]] = arr
                names = [sc["grids"][i]["name"] for i in sc["write_order"]]
                out = os.path.join(root, "out.nc")
                program.add_command(program.find_command_class("EEMSWrite"), "__write__",
                                    {"OutFileName": "out.nc", "OutFieldNames": names, "DimensionFileName": tmpl,
                                     "DimensionFieldName": t["var"]["name"]})
                log.emit("op-begin", op="WRITE", names=names)
                try:
                    program.commands["__write__"].run()
                except SimAbort:
                    raise
                except Exception as exc:  # noqa
                    inner = getattr(exc, "exc", None)
                    label = type(exc).__name__ + (":" + type(inner).__name__ if isinstance(inner, BaseException) else "")
                    mk = sc["grids"][sc["write_order"][0]]["maskkind"]
                    res.violate("C18.write", "C18.write raised %s first-mask=%s" % (label, "nomask" if mk == "nomask" else "array"),
                                "writing %r raised %s: %s" % (names, label, str(inner or exc)[:160]))
                    return _finish(sc, res)
                union = [False] * int(numpy.prod(shape))
                for g in sc["grids"]:
                    union = [a or b for a, b in zip(union, g["mask"])]
                # ---- inspect the written dataset directly ---------------------------------------------------------
                with Dataset(out) as ds, Dataset(tmpl) as ts:
                    for d, n in t["dims"]:
                        if t["coords"][d].get("absent"):
                            res.probe("template dimension without a coordinate variable")
                            if d not in ds.dimensions or ds.dimensions[d].size != n:
                                res.violate("C18.dims", "C18.dims dimension-not-copied", "dimension %s missing or resized" % d)
                                return _finish(sc, res)
                            continue
                        if d not in ds.dimensions or ds.dimensions[d].size != n or d not in ds.variables:
                            res.violate("C18.dims", "C18.dims dimension-not-copied", "dimension %s missing or resized" % d)
                            return _finish(sc, res)
                        a, b = ds.variables[d], ts.variables[d]
                        if t["coords"][d].get("packed"):
                            res.probe("packed (scale_factor/add_offset) coordinate variable")
                        a.set_auto_maskandscale(False)      # what is stored, not what a reader makes of it
                        b.set_auto_maskandscale(False)
                        if a.dtype != b.dtype or numpy.asarray(a[:]).tobytes() != numpy.asarray(b[:]).tobytes():
                            res.violate("C18.dims", "C18.dims coordinate-values-changed",
                                        "coordinate %s: %s %r instead of %s %r" % (d, a.dtype, a[:].tolist(), b.dtype, b[:].tolist()))
                            return _finish(sc, res)
                        if _attrs(a) != _attrs(b):
                            res.violate("C18.dims", "C18.dims coordinate-attributes-changed", "attributes of %s differ" % d)
                            return _finish(sc, res)
                    for nm in names:
                        if nm not in ds.variables or tuple(ds.variables[nm].shape) != shape:
                            res.violate("C18.write", "C18.write variable-shape", "variable %s missing or mis-shaped" % nm)
                            return _finish(sc, res)
                        g0 = next(x for x in sc["grids"] if x["name"] == nm)
                        kind = ds.variables[nm].dtype.kind
                        if (g0["dtype"] in ("i8", "u8")) != (kind in "iu"):
                            res.violate("C18.write", "C18.write element-kind-changed",
                                        "%s result %s was stored as %s" % ("integer" if g0["dtype"] in ("i8", "u8") else "float", nm,
                                                                           ds.variables[nm].dtype))
                            return _finish(sc, res)
                res.probe("template dimension variables copied unchanged")
                if t["crs"]:
                    res.probe("template with CRS variable")
                if any(n == 1 for n in shape):
                    res.probe("length-1 axis")
                if len(names) > 1 and any(g["mask"] != sc["grids"][0]["mask"] for g in sc["grids"]):
                    res.probe("results with different masks written together")
                # ---- READ ---------------------------------------------------------------------------------------
                for k, rd in enumerate(sc["reads"]):
                    g = sc["grids"][rd["grid"] % len(sc["grids"])]
                    args = {"InFileName": out if k % 2 else "out.nc", "InFieldName": "nosuch" if rd.get("nosuch") else g["name"]}
                    if rd.get("dtype"):
                        args["DataType"] = rd.get("spelling") or rd["dtype"]
                    if rd.get("missing") is not None:
                        args["MissingValue"] = rd["missing"]
                    rname = "R%d" % k
                    if "built_with_dtype" in rd and rd.get("built_with_dtype") != rd.get("dtype"):
                        from mpilot.arguments import Argument
                        first = dict(args)
                        first.pop("DataType", None)
                        if rd["built_with_dtype"]:
                            first["DataType"] = rd["built_with_dtype"]
                        program.add_command(program.find_command_class("EEMSRead"), rname, first)
                        cmd = program.commands[rname]
                        cmd.arguments[:] = [a for a in cmd.arguments if a.name != "DataType"]
                        if rd.get("dtype"):
                            cmd.arguments.append(Argument("DataType", rd["dtype"]))
                        res.probe("arguments of the constructed command edited before it ran")
                    else:
                        program.add_command(program.find_command_class("EEMSRead"), rname, args)
                    log.emit("op-begin", op="READ", var=args["InFieldName"], dtype=rd.get("dtype"), missing=rd.get("missing"))
                    try:
                        got = program.commands[rname].result
                        err = None
                    except SimAbort:
                        raise
                    except Exception as exc:  # noqa
                        got, err = None, exc
                    log.emit("op-end", op="READ", ok=err is None, exc=type(err).__name__ if err else None)
                    _judge(res, g, rd, got, err, union, shape, numpy, MPilotError)
                # ---- second write: some of the same results on their own --------------------------------------------
                sw = sc.get("second_write")
                if sw:
                    sel = [sc["grids"][i % len(sc["grids"])] for i in sw["grids"]]
                    names2 = [g["name"] for g in sel]
                    t2 = t
                    if sw.get("regen_template"):
                        t2 = copy.deepcopy(t)
                        for d in t2["coords"]:
                            c2 = t2["coords"][d]
                            c2["values"] = [(v + 7 if not isinstance(v, float) else v + 7.5) for v in c2["values"]]
                            c2["attrs"] = dict(c2["attrs"], long_name="regenerated " + d)
                        os.remove(tmpl)
                        _make_template(tmpl, t2)
                        res.probe("template regenerated at the same path between two writes")
                    program.add_command(program.find_command_class("EEMSWrite"), "__write2__",
                                        {"OutFileName": "out2.nc", "OutFieldNames": names2, "DimensionFileName": tmpl,
                                         "DimensionFieldName": t["var"]["name"]})
                    log.emit("op-begin", op="WRITE2", names=names2)
                    try:
                        program.commands["__write2__"].run()
                        err = None
                    except SimAbort:
                        raise
                    except Exception as exc:  # noqa
                        err = exc
                    if err is not None:
                        res.violate("C18.write", "C18.write second-write-raised %s" % type(err).__name__,
                                    "writing %r after %r raised %r" % (names2, names, err))
                    else:
                        union2 = [False] * int(numpy.prod(shape))
                        for g in sel:
                            union2 = [a or b for a, b in zip(union2, g["mask"])]
                        with Dataset(os.path.join(root, "out2.nc")) as ds2, Dataset(tmpl) as ts2:
                            for d, n in t2["dims"]:
                                if t2["coords"][d].get("absent"):
                                    continue
                                a, b = ds2.variables[d], ts2.variables[d]
                                if numpy.asarray(a[:]).tobytes() != numpy.asarray(b[:]).tobytes() or \
                                        _attrs(a) != _attrs(b):
                                    res.violate("C18.dims", "C18.dims second-write-coordinates-stale",
                                                "second write: coordinate %s is %r, the template at that path now has %r"
                                                % (d, numpy.asarray(a[:]).tolist(), numpy.asarray(b[:]).tolist()))
                                    break
                        res.probe("some of the results written again on their own")
                        for k, rd in enumerate(sw["reads"]):
                            g = sel[rd["grid_pos"] % len(sel)]
                            args = {"InFileName": "out2.nc", "InFieldName": g["name"]}
                            if rd.get("dtype"):
                                args["DataType"] = rd["dtype"]
                            rname = "S%d" % k
                            program.add_command(program.find_command_class("EEMSRead"), rname, args)
                            try:
                                got, err = program.commands[rname].result, None
                            except SimAbort:
                                raise
                            except Exception as exc:  # noqa
                                got, err = None, exc
                            log.emit("read2", var=g["name"], ok=err is None)
                            _judge(res, g, {"dtype": rd.get("dtype"), "missing": None}, got, err, union2, shape, numpy,
                                   MPilotError, tag="second-write ")
                # ---- another program of the same process writes a result of the same name to the same file --------------------
                ow = sc.get("overwrite")
                if ow:
                    g0 = sc["grids"][ow["grid"] % len(sc["grids"])]
                    ncell = int(numpy.prod(shape))
                    newvals = [float((i * 7 + ow["salt"]) % 13) - 3.5 for i in range(ncell)] if ow["dtype"] == "f8" else \
                        [int((i * 5 + ow["salt"]) % 11) - 2 for i in range(ncell)]
                    newmask = [(i + ow["salt"]) % 4 == 0 for i in range(ncell)] if ow["masked"] else [False] * ncell
                    g2 = {"name": g0["name"], "dtype": ow["dtype"], "values": newvals, "mask": newmask}
                    prog3 = Program(libraries=NETCDF_LIBS, working_dir=root)
                    data = numpy.array(newvals, dtype=("float64" if ow["dtype"] == "f8" else "int64")).reshape(shape)
                    cmd = Command(g0["name"])
                    cmd.is_finished = True
                    cmd._result = numpy.ma.array(data, mask=numpy.array(newmask, dtype=bool).reshape(shape))
                    prog3.commands[g0["name"]] = cmd
                    prog3.add_command(prog3.find_command_class("EEMSWrite"), "__write3__",
                                      {"OutFileName": "out.nc", "OutFieldNames": [g0["name"]], "DimensionFileName": tmpl,
                                       "DimensionFieldName": t["var"]["name"]})
                    prog3.add_command(prog3.find_command_class("EEMSRead"), "T0",
                                      {"InFileName": "out.nc", "InFieldName": g0["name"]})
                    log.emit("op-begin", op="OVERWRITE", var=g0["name"], dtype=ow["dtype"])
                    try:
                        prog3.commands["__write3__"].run()
                        got, err = prog3.commands["T0"].result, None
                    except SimAbort:
                        raise
                    except Exception as exc:  # noqa
                        got, err = None, exc
                    res.probe("the output file written again by another program of the same process")
                    with Dataset(out) as ds3:
                        left = sorted(v for v in ds3.variables if v not in [d for d, _ in t["dims"]] + [g0["name"], "crs"])
                        if err is None and ((ds3.variables[g0["name"]].dtype.kind in "iu") != (ow["dtype"] == "i8")):
                            res.violate("C18.write", "C18.write overwrite-element-kind-changed",
                                        "%s written again as %s is stored as %s" % (g0["name"], ow["dtype"],
                                                                                    ds3.variables[g0["name"]].dtype))
                        if err is None and left:
                            res.violate("C18.write", "C18.write overwrite-kept-old-variables",
                                        "after writing %s alone to out.nc the file still holds %r" % (g0["name"], left))
                    _judge(res, g2, {"dtype": None, "missing": None}, got, err, newmask, shape, numpy, MPilotError,
                           tag="overwrite ")
                # ---- reads of the template's own variable (negative fill value, missing cells) ---------------------------
                for k, rd in enumerate(sc.get("template_reads") or []):
                    ncell = int(numpy.prod(shape))
                    miss = set(i for i in (t["var"].get("missing_cells") or []) if i < ncell)
                    g = {"name": t["var"]["name"], "values": [float(i) for i in range(ncell)]}
                    if t["var"].get("tenths"):
                        g["values"] = [float(numpy.array(i * 0.1).astype(t["var"]["dtype"])) for i in range(ncell)]
                    tmask = [i in miss for i in range(ncell)]
                    args = {"InFileName": tmpl, "InFieldName": t["var"]["name"]}
                    if rd.get("dtype"):
                        args["DataType"] = rd["dtype"]
                    if rd.get("missing_cell") is not None and t["var"].get("tenths"):
                        j = rd["missing_cell"] % ncell
                        args["MissingValue"] = j * 0.1
                        tmask = [m_ or i == j for i, m_ in enumerate(tmask)]
                        res.probe("missing value that is not representable in binary, compared in the variable's precision")
                    rname = "T%d" % k
                    program.add_command(program.find_command_class("EEMSRead"), rname, args)
                    try:
                        got, err = program.commands[rname].result, None
                    except SimAbort:
                        raise
                    except Exception as exc:  # noqa
                        got, err = None, exc
                    log.emit("read-template", dtype=rd.get("dtype"), ok=err is None)
                    if t["var"].get("tenths") and rd.get("dtype") in ("Integer", "Positive Integer"):
                        res.observe("fractional float32 / float64 data read as integers: rounding rule not settled, not judged")
                        continue
                    _judge(res, g, {"dtype": rd.get("dtype"), "missing": None}, got, err, tmask, shape, numpy, MPilotError,
                           tag="template-variable ")
                    if miss and t["var"]["fill"] is not None and t["var"]["fill"] < 0:
                        res.probe("variable with missing cells stored under a negative fill value read")
            finally:
                mon.uninstall()
    finally:
        shutil.rmtree(root, ignore_errors=True)
    return _finish(sc, res)


def _attrs(var):
    """Attributes of a NetCDF variable in a form that compares NaN fill values as equal."""
    import numpy
    out = {}
    for k in var.ncattrs():
        v = var.getncattr(k)
        out[k] = v if isinstance(v, str) else (str(numpy.asarray(v).dtype), numpy.asarray(v).tobytes())
    return out


def _judge(res, g, rd, got, err, union, shape, numpy, MPilotError, tag=""):
    dt = rd.get("dtype")
    label = "%sdtype=%s missing=%s" % (tag, dt or "default", "given" if rd.get("missing") is not None else "none")
    if rd.get("nosuch"):
        if err is None or type(err).__name__ != "NoSuchVariable":
            res.violate("C18.read", "C18.read missing-variable-not-reported",
                        "reading a variable that does not exist gave %r" % (err or got,))
        else:
            res.probe("missing variable reported")
        return
    vals = g["values"]
    if rd.get("spelling") and rd["spelling"] != dt:
        if err is not None and type(err).__name__ == "ParameterNotValid":
            res.probe("loosely spelled type name rejected")
            return
        res.probe("loosely spelled type name accepted: judged like the real name")
    # (a cell that holds the declared missing value is missing data: the type checks are about the data)
    mv0 = rd.get("missing")
    valid = [v for v, m in zip(vals, union) if not m and not (mv0 is not None and v == v and float(v) == float(mv0))]
    # documented type checks (on the data as stored, i.e. at non-missing cells)
    expect_err = None
    if dt in ("Positive Float", "Positive Integer") and any(v < 0 for v in valid):
        expect_err = "InvalidPositiveData"
    if not valid:
        res.probe("variable without a single valid cell read")
    if dt == "Fuzzy" and any(v > 1.02 or v < -1.02 for v in valid):
        expect_err = "InvalidFuzzyData"
    if expect_err:
        if err is None:
            res.violate("C18.check", "C18.check %s-not-raised" % expect_err,
                        "data %r violates DataType %s but the read succeeded" % (sorted(set(valid))[:6], dt))
        elif type(err).__name__ != expect_err:
            inner = getattr(err, "exc", None)
            res.violate("C18.check", "C18.check %s-expected got-%s" % (expect_err, type(err).__name__ + (
                ":" + type(inner).__name__ if isinstance(inner, BaseException) else "")),
                        "DataType %s on violating data raised %s: %s" % (dt, type(err).__name__, str(inner or err)[:160]))
        else:
            res.probe("type check fired: " + expect_err)
        return
    if err is not None:
        inner = getattr(err, "exc", None)
        lab = type(err).__name__ + (":" + type(inner).__name__ if isinstance(inner, BaseException) else "")
        res.violate("C18.read", "C18.read raised %s %s" % (lab, label),
                    "reading %s (%s) raised %s: %s" % (g["name"], label, lab, str(inner or err).split("\n")[0][:160]))
        return
    if not isinstance(got, numpy.ndarray) or tuple(got.shape) != shape:
        res.violate("C18.read", "C18.read shape", "read back shape %r, written %r" % (getattr(got, "shape", None), shape))
        return
    data = numpy.ma.getdata(got)
    kind = data.dtype.kind
    want_kind = "f" if dt in (None, "Float", "Positive Float", "Fuzzy") else ("u" if dt == "Positive Integer" else "i")
    if kind != want_kind and not (want_kind == "u" and kind == "u"):
        res.violate("C18.read", "C18.read element-kind %s" % (dt or "default"),
                    "DataType %s returned element type %s" % (dt or "(omitted: float by default)", data.dtype))
        return
    if want_kind in ("i", "u") and any(v == v and not -2 ** 63 <= v < 2 ** 64 for v in vals):
        res.observe("values beyond the 64-bit integer range read as an integer type: not representable, not judged")
        return
    if want_kind == "i" and any(isinstance(v, int) and not -2 ** 63 <= v < 2 ** 63 for v in vals):
        res.observe("unsigned values beyond the signed 64-bit range read as Integer: not representable, not judged")
        return
    mask = numpy.ma.getmaskarray(got).ravel().tolist()
    flat = data.ravel().tolist()
    mv = rd.get("missing")
    if mv is not None and want_kind in ("i", "u") and float(mv) != float(numpy.rint(mv)):
        # how a fractional missing value applies to an integer read is not settled by the statement
        res.observe("fractional missing value with an integer element type: masks not judged")
        return
    for i, (v, m) in enumerate(zip(vals, union)):
        exp_v = v
        if want_kind in ("i", "u") and not (isinstance(v, int) and abs(v) > 2 ** 53):
            exp_v = float(numpy.rint(v))
        if dt == "Fuzzy" and v == v:
            exp_v = max(-1.0, min(1.0, v))
        is_missing = m or (mv is not None and float(exp_v) == float(mv))
        if dt == "Fuzzy" and mv is not None and not m and v == v and (float(v) == float(mv)) != (float(exp_v) == float(mv)):
            if float(v) == float(mv):
                is_missing = True        # the stored value is the missing value (whatever clipping would make of it)
            else:
                continue                 # only the clipped value equals it: not settled by the statement
        if bool(mask[i]) != bool(is_missing):
            res.violate("C18.mask", "C18.mask %s %s" % ("cell-not-missing" if is_missing else "cell-wrongly-missing", label),
                        "cell %d of %s (value %r, written mask union %r, missing value %r): read mask %r"
                        % (i, g["name"], v, m, mv, mask[i]))
            return
        if is_missing:
            continue
        if want_kind in ("i", "u") and isinstance(v, int) and abs(v) > 2 ** 53:
            if int(flat[i]) != v:
                res.violate("C18.value", "C18.value big-integer-changed %s" % label,
                            "cell %d of %s: wrote %d, read %d" % (i, g["name"], v, int(flat[i])))
                return
            continue
        if float(flat[i]) != float(exp_v) and not (exp_v != exp_v and flat[i] != flat[i]):
            res.violate("C18.value", "C18.value differs %s" % label,
                        "cell %d of %s: wrote %r, read %r (expected %r)" % (i, g["name"], v, flat[i], exp_v))
            return
    res.probe("grid read back equal (" + (dt or "default type") + ")")
    if any(v != v or v in (float("inf"), float("-inf")) for v in vals if isinstance(v, float)):
        res.probe("grid with nan / infinite cells read back")
    if mv is not None:
        res.probe("missing value honoured")
    if any(union):
        res.probe("missing cells = union of written masks")


def _finish(sc, res):
    res.case_key = h64([sc["template"]["dims"], sc["grids"], sc["write_order"], sc["reads"]])
    res.schedule_key = h64([[r.get("dtype"), r.get("missing") is not None] for r in sc["reads"]])
    res.state_keys.add(h64([len(sc["template"]["dims"]), [g["maskkind"] for g in sc["grids"]],
                            sorted({str(r.get("dtype")) for r in sc["reads"]})]))
    res.nontrivial = True
    return res


def worker_init(scratch):
    from mpilot.program import Program
    Program(libraries=NETCDF_LIBS)


def shrink_candidates(sc):
    def clone():
        return copy.deepcopy(sc)

    if len(sc["reads"]) > 1:
        for i in range(len(sc["reads"])):
            c = clone()
            del c["reads"][i]
            yield c
    ng = len(sc["grids"])
    if ng > 1:
        used = {rd["grid"] % ng for rd in sc["reads"]}
        for i in range(ng):
            if i in used:
                continue
            c = clone()
            del c["grids"][i]
            c["write_order"] = [j - (1 if j > i else 0) for j in c["write_order"] if j != i]
            for rd in c["reads"]:
                rd["grid"] = (rd["grid"] % ng) - (1 if (rd["grid"] % ng) > i else 0)
            if c.get("second_write"):
                c["second_write"]["grids"] = [j - (1 if j > i else 0) for j in c["second_write"]["grids"] if j != i]
                if not c["second_write"]["grids"]:
                    c["second_write"] = None
            yield c
    # smaller shapes: drop the last axis to length 1
    dims = sc["template"]["dims"]
    for ai, (d, n) in enumerate(dims):
        if n > 1:
            c = clone()
            shape = [x for _, x in dims]
            import itertools
            keep = []
            for idx in itertools.product(*[range(x) for x in shape]):
                if idx[ai] == 0:
                    flat = 0
                    for k, x in zip(idx, shape):
                        flat = flat * x + k
                    keep.append(flat)
            c["template"]["dims"][ai][1] = 1
            c["template"]["coords"][d]["values"] = c["template"]["coords"][d]["values"][:1]
            for g in c["grids"]:
                g["values"] = [g["values"][k] for k in keep]
                g["mask"] = [g["mask"][k] for k in keep]
            yield c
    for i, g in enumerate(sc["grids"]):
        if any(g["mask"]):
            c = clone()
            c["grids"][i]["mask"] = [False] * len(g["mask"])
            yield c
        if g["maskkind"] != "allfalse" and not any(g["mask"]):
            c = clone()
            c["grids"][i]["maskkind"] = "allfalse"
            yield c
    for i, rd in enumerate(sc["reads"]):
        if rd.get("missing") is not None:
            c = clone()
            c["reads"][i]["missing"] = None
            yield c
    if sc["template"]["crs"]:
        c = clone()
        c["template"]["crs"] = False
        yield c
    if sc.get("second_write"):
        c = clone()
        c["second_write"] = None
        yield c
    if sc.get("template_reads"):
        c = clone()
        c["template_reads"] = []
        yield c
    if sc["write_order"] != sorted(sc["write_order"]):
        c = clone()
        c["write_order"] = sorted(c["write_order"])
        yield c


def sample(sc):
    return {"template_dims": sc["template"]["dims"], "template_has_crs": sc["template"]["crs"],
            "grids": [[g["name"], g["dtype"], g["maskkind"], g["values"][:8], g["mask"][:8]] for g in sc["grids"]],
            "written_together_in_order": [sc["grids"][i]["name"] for i in sc["write_order"]],
            "reads": sc["reads"]}


RULES = {
    "C18": "Each case = a template dataset generated with netCDF4 (rank 1-3 incl. length-1 axes, float/int coordinate "
           "variables with attributes, optional CRS variable), 1-4 float64/int64 grids (no mask / all-false mask / some "
           "missing cells; fuzzy-range, positive, mixed values) written together by EEMSWrite in a seeded order, the "
           "written file inspected directly, then 1-4 EEMSRead operations over DataType omitted / each of the five "
           "names x MissingValue omitted / present / absent from the data, plus missing-variable reads. Distinct = "
           "distinct hash of the scenario.",
}
ASSUMPTIONS = {
    "C18": [
        "file system is REAL (per-run scratch directory), not simulated: the netCDF C library takes paths; only "
        "whole-file conditions exist in this engine",
        "the documented parameter name is MissingVal, the implemented one MissingValue; the oracle follows the "
        "statement ('the missing value') through the implemented name and records the discrepancy here",
        "values equal to a masked array's default fill value (1e20 / 999999) are not generated",
        "integer reads are expected to round to nearest; positive/fuzzy checks are judged on the non-missing cells "
        "(fuzzy tolerance 1% of the range, i.e. [-1.02, 1.02], then clamped)",
    ],
}
COMPONENTS = {
    "real": ["mpilot.libraries.eems.netcdf.io.EEMSRead / EEMSWrite", "mpilot.program / commands / params",
             "netCDF4 + HDF5 C libraries", "real files in a per-run scratch directory"],
    "stub": [],
}


STATE_MEASURE = {'C18': 'abstract state = (rank, mask kinds of the grids written together, set of DataType values read); schedule key = read parameter combinations'}
