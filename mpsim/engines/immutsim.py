"""immutsim - histories of consumer executions over shared, memoised producer arrays (C09: computed
results are immutable).  A snapshot invariant is checked after every execute exit (normal or raising).

Real: every built-in EEMS command's execute, Command.run/result memoisation, params, SimFS-backed
writers.  Producers are injected finished results (1-D, 2-D and 3-D arrays that CSV input cannot give).
"""
from __future__ import annotations

import copy
from fractions import Fraction

from ..core import EventLog, RunResult, SimAbort, h64
from ..seams import ExecMonitor, Hygiene, StdCapture
from ..simfs import SimFS
from .. import modelgen
from ..refmodel import eems
from ..refmodel.declarations import table as decl_table

ENGINE = "immutsim"
BUDGET = {"C09": {"quick": 12000, "thorough": 200000}}
DECL = decl_table("csv")
WORK = "/sim/work"
CONSUMERS = tuple(modelgen.ALL_OPS) + ("PrintVars", "EEMSWrite")


def generate(prop, rng, index, tier):
    rank = rng.choice([1, 1, 1, 2, 2, 3])
    shape = [rng.choice([1, 2, 3, 4, 5]) for _ in range(rank)]
    if rank == 1:
        shape = [rng.choice([1, 2, 3, 5, 8])]
    ncell = 1
    for n in shape:
        ncell *= n
    producers = []
    for i in range(rng.randint(1, 4)):
        fuzzy = rng.random() < 0.4
        is_int = (not fuzzy) and rng.random() < 0.3
        if fuzzy:
            vals = [rng.randint(-8, 8) / 8.0 for _ in range(ncell)]
        elif is_int:
            vals = [rng.randint(-5, 9) for _ in range(ncell)]
        else:
            vals = [rng.randint(-32, 32) / 4.0 for _ in range(ncell)]
        if rng.random() < 0.08:
            vals = [vals[0]] * ncell                     # a constant field (zero standard deviation)
        elif len(set(vals)) < 2 and ncell >= 2:
            vals[0] = vals[1] + (0.5 if not is_int else 1) if not fuzzy else -vals[1] if vals[1] else 0.5
        mk = rng.choice(["nomask", "allfalse", "some", "some", "soft"])
        mask = [False] * ncell
        if mk in ("some", "soft") and ncell >= 2:
            for _ in range(rng.randint(1, max(1, ncell // 3))):
                mask[rng.randrange(ncell)] = True
            if all(mask):
                mask[0] = False
        p = {"name": "p%d" % i, "dtype": "i8" if is_int else "f8", "shape": list(shape), "values": vals, "mask": mask,
             "maskkind": mk, "fuzzy": fuzzy, "hidden": rng.choice([None, 12345.0, -7.0])}
        r_odd = rng.random()
        if r_odd < 0.05 and rank == 1:
            p["shape"] = [ncell + 1]          # an odd one: consumers that mix shapes fail legitimately
            p["values"] = vals + [vals[0]]
            p["mask"] = mask + [False]
        elif r_odd < 0.12 and i > 0:
            # same cells, an extra length-1 axis (a NetCDF (1, y, x) variable next to a (y, x) grid)
            p["shape"] = ([1] + list(shape)) if rng.random() < 0.5 else (list(shape) + [1])
        if not is_int and rng.random() < 0.08:
            # not-a-number / infinite cells are legal numeric input ("nan", "inf" in a CSV file)
            # (a fuzzy result can hold NaN - the clamp leaves it - but never an infinity)
            p["values"][rng.randrange(ncell)] = "nan" if fuzzy else rng.choice(["nan", "inf", "-inf"])
        producers.append(p)
    # pseudo reference environment so that the argument generator can look at data values
    env = {}
    nf, fz = [], []
    for p in producers:
        env[p["name"]] = eems.Res([None if (m or isinstance(v, str)) else Fraction(v)
                                   for v, m in zip(p["values"], p["mask"])], p["fuzzy"], True)
        (fz if p["fuzzy"] else nf).append(p["name"])
    config = "netcdf" if index % 6 == 5 else "csv"
    if config == "netcdf":
        for p in producers:
            if not p["fuzzy"] and p["dtype"] == "f8" and rng.random() < 0.4:
                # a plain layer whose values are fuzzy-like, some of them inside the reader's 1 % tolerance band
                p["values"] = [rng.choice([-1.0125, -1.0, -0.5, 0.0, 0.75, 1.0, 1.0125, 1.02]) for _ in p["values"]]
                p["fuzzy_like"] = True
        for p in producers:                     # one grid shape for the template
            if p["shape"] != list(shape):
                p["shape"] = list(shape)
                p["values"] = p["values"][:ncell]
                p["mask"] = p["mask"][:ncell]
    consumers = []
    like = [p["name"] for p in producers if p.get("fuzzy_like")]
    if config == "netcdf" and like and rng.random() < 0.6:
        # the fuzzy-like layer goes through a file: written, read back as fuzzy data, and used alone by an n-ary operator
        src = rng.choice(like)
        consumers.append({"name": "k0", "cmd": "EEMSWrite", "args": {
            "OutFileName": "out0.nc", "OutFieldNames": [src], "DimensionFileName": "template.nc", "DimensionFieldName": "elev"}})
        consumers.append({"name": "k1", "cmd": "EEMSRead", "args": {"InFileName": "out0.nc", "InFieldName": src, "DataType": "Fuzzy"}})
        env["k1"] = env[src]
        fz.append("k1")
        consumers.append({"name": "k2", "cmd": rng.choice(["FuzzyOr", "FuzzyAnd"]), "args": {"InFieldNames": ["k1"]}})
        env["k2"] = env[src]
        fz.append("k2")
    n = rng.randint(5, 14 if tier == "quick" else 40)
    attempts = 0
    while len(consumers) < n and attempts < 300:
        attempts += 1
        cmd = rng.choice(CONSUMERS)
        name = "k%d" % len(consumers)
        if cmd == "PrintVars":
            pool = nf + fz
            args = {"InFieldNames": [rng.choice(pool) for _ in range(rng.randint(1, 3))]}
            if rng.random() < 0.6:
                args["OutFileName"] = "print%d.txt" % len(consumers)
            consumers.append({"name": name, "cmd": cmd, "args": args})
            continue
        written = [c for c in consumers if c["cmd"] == "EEMSWrite" and c["args"]["OutFileName"].endswith(".nc")]
        if config == "netcdf" and written and rng.random() < 0.3:
            w = rng.choice(written)
            args = {"InFileName": w["args"]["OutFileName"], "InFieldName": rng.choice(w["args"]["OutFieldNames"])}
            r = rng.random()
            if r < 0.6:
                args["DataType"] = rng.choice(["Float", "Integer", "Fuzzy", "Positive Float"])
            if rng.random() < 0.3:
                args["MissingValue"] = rng.choice([0, 1, -1, 0.5])
            consumers.append({"name": name, "cmd": "EEMSRead", "args": args})
            env[name] = env[producers[0]["name"]]
            src = next((p for p in producers if p["name"] == args["InFieldName"]), None)
            if args.get("DataType") == "Fuzzy" and src is not None and (src["fuzzy"] or src.get("fuzzy_like")) \
                    and "MissingValue" not in args:
                fz.append(name)        # a layer read as fuzzy data is fuzzy data for the commands that use it
            else:
                nf.append(name)
            continue
        if cmd == "EEMSWrite" or (config == "netcdf" and rng.random() < 0.25):
            pool = nf + fz
            if config == "netcdf":
                args = {"OutFileName": "out%d.nc" % len(consumers),
                        "OutFieldNames": list(dict.fromkeys(rng.choice(pool) for _ in range(rng.randint(1, 4)))),
                        "DimensionFileName": "template.nc", "DimensionFieldName": "elev"}
            else:
                args = {"OutFileName": "out%d.csv" % len(consumers),
                        "OutFieldNames": [rng.choice(pool) for _ in range(rng.randint(1, 3))]}
            consumers.append({"name": name, "cmd": "EEMSWrite", "args": args})
            continue
        args = modelgen.gen_args(rng, cmd, nf, fz, env)
        if args is None:
            continue
        # single-input forms and the same producer twice
        if "InFieldNames" in args and rng.random() < 0.35:
            k = rng.choice([1, 1, 2])
            first = args["InFieldNames"][0]
            args["InFieldNames"] = [first] * k if k > 1 or cmd != "FuzzyXOr" else [first, first]
            if "Weights" in args:
                args["Weights"] = args["Weights"][:len(args["InFieldNames"])] or [1]
                while len(args["Weights"]) < len(args["InFieldNames"]):
                    args["Weights"].append(1)
            if "NumberToConsider" in args:
                args["NumberToConsider"] = min(args["NumberToConsider"], len(args["InFieldNames"]))
        if rng.random() < 0.08:
            _spoil(rng, cmd, args)      # a setting the command itself rejects (inside execute, after it has its inputs)
        consumers.append({"name": name, "cmd": cmd, "args": args})
        d = DECL[cmd]
        src = eems.refs_of({"cmd": cmd, "args": args})
        env[name] = env[src[0]] if src else env[producers[0]["name"]]
        (fz if d["fuzzy"] else nf).append(name)
        r = rng.random()
        if r < 0.2 and _twin_of(cmd):
            # the counterpart command (Normalize... / CvtToFuzzy...) on the same field with the same settings
            tw = _twin_of(cmd)
            targs = {}
            for k, v in args.items():
                k2 = k.replace("Normal", "Fuzzy") if tw.startswith("CvtToFuzzy") else k.replace("Fuzzy", "Normal")
                if k2 in DECL[tw]["params"]:
                    targs[k2] = copy.deepcopy(v)
            tname = "k%d" % len(consumers)
            consumers.append({"name": tname, "cmd": tw, "args": targs})
            env[tname] = env[name]
            (fz if DECL[tw]["fuzzy"] else nf).append(tname)
        elif r < 0.27:
            # the very same command again, same settings
            tname = "k%d" % len(consumers)
            consumers.append({"name": tname, "cmd": cmd, "args": copy.deepcopy(args)})
            env[tname] = env[name]
            (fz if d["fuzzy"] else nf).append(tname)
    order = list(range(len(consumers)))
    return {"engine": ENGINE, "prop": "C09", "config": config, "producers": producers, "consumers": consumers,
            "final_run": rng.random() < 0.3, "repeat_reads": rng.random() < 0.3,
            # who drives the evaluation: the client runs consumers one by one, or adds them all and calls program.run()
            "drive": rng.choice(["stepwise", "stepwise", "program-run"])}


TWINS = {"NormalizeCat": "CvtToFuzzyCat", "NormalizeCurve": "CvtToFuzzyCurve",
         "NormalizeMeanToMid": "CvtToFuzzyMeanToMid", "NormalizeCurveZScore": "CvtToFuzzyCurveZScore"}
TWINS.update({v: k for k, v in list(TWINS.items())})


def _twin_of(cmd):
    return TWINS.get(cmd)


def _spoil(rng, cmd, args):
    """Turn one setting into something the command rejects when it executes (its inputs are evaluated by then)."""
    cands = []
    if "Direction" in args or cmd in ("CvtToBinary", "CvtToFuzzy"):
        cands.append(("Direction", "Sideways"))
    if "TruestOrFalsest" in args:
        cands.append(("TruestOrFalsest", "Sideways"))
    if "NumberToConsider" in args and isinstance(args.get("InFieldNames"), list):
        cands.append(("NumberToConsider", len(args["InFieldNames"]) + 1))
        cands.append(("NumberToConsider", 0))
    if isinstance(args.get("Weights"), list):
        cands.append(("Weights", list(args["Weights"]) + [1]))
    if isinstance(args.get("RawValues"), list) and len(args["RawValues"]) >= 2:
        cands.append(("RawValues", list(args["RawValues"])[:-1]))
        cands.append(("RawValues", [args["RawValues"][0]] + list(args["RawValues"])[:-1]))
    if "TrueThreshold" in args and "FalseThreshold" in args:
        cands.append(("FalseThreshold", args["TrueThreshold"]))
    if cands:
        k, v = rng.choice(cands)
        args[k] = v


# ------------------------------------------------------------------------------------------------
def snap(arr):
    import numpy
    if not isinstance(arr, numpy.ndarray):
        return ("non-array", type(arr).__name__, repr(arr)[:60])
    mask = numpy.ma.getmaskarray(arr)
    data = numpy.ma.getdata(arr)
    return ("array", tuple(arr.shape), str(data.dtype), mask.tobytes(), data[~mask].tobytes())


def diff(a, b):
    if a[0] != b[0]:
        return "kind"
    if a[0] != "array":
        return None if a == b else "value"
    if a[1] != b[1]:
        return "shape"
    if a[2] != b[2]:
        return "element-type"
    if a[3] != b[3]:
        return "missing-cells"
    if a[4] != b[4]:
        return "values"
    return None


def execute(sc):
    import numpy
    from mpilot.program import Program
    from mpilot.commands import Command
    from mpilot.exceptions import MPilotError

    res = RunResult()
    log = EventLog(cap=40000)
    res.log = log
    log.blind_sizes = True      # NaN cells are part of the workload: see EventLog
    log.emit("scenario", prop="C09", nprod=len(sc["producers"]), ncons=len(sc["consumers"]))
    if any(isinstance(v, str) for p in sc["producers"] for v in p["values"]):
        log.digest_cut = log.seq      # NaN / infinite cells: see EventLog.digest_cut
    fs = SimFS(log, res, files={}, dirs=[WORK])
    snaps = {}        # result name -> snapshot taken when it was produced
    holders = {}      # result name -> command object
    reported = set()
    current = [None]

    def check_all(key, how):
        c = next((x for x in sc["consumers"] if x["name"] == key), None)
        for name, s0 in snaps.items():
            now = snap(holders[name]._result)
            d = diff(s0, now)
            if d and (name, d) not in reported:
                reported.add((name, d))
                refs = eems.refs_of(c) if c else []
                rel = "its-input" if name in refs else ("its-own-earlier-result" if name == key else "unrelated-result")
                prod = next((p for p in sc["producers"] if p["name"] == name), None)
                res.violate("C09.mutated", "C09.mutated %s %s of %s" % (c["cmd"] if c else "?", d, rel),
                            "after %s = %s(...) %s, the %s of %s (%s) changed"
                            % (key, c["cmd"] if c else "?", how, d, name,
                               "producer %s mask=%s" % (prod["dtype"], prod["maskkind"]) if prod else "computed result"))

    def on_exit(inst, key, result):
        holders[key] = inst
        # the command's own result becomes visible after execute returns: snapshot what it returned
        check_all(key, "returned")
        if key not in snaps:
            snaps[key] = snap(result)
            if isinstance(result, numpy.ndarray) and any(result is holders[n]._result for n in snaps if n != key):
                res.probe("consumer returned the very array object of an input (single-input reduce)")

    def on_raise(inst, key, exc):
        check_all(key, "raised %s" % type(exc).__name__)

    mon = ExecMonitor(log, on_exit=on_exit, on_raise=on_raise)
    root = None
    with Hygiene(), fs, StdCapture(log):
        if sc.get("config") == "netcdf":
            # the NetCDF writer needs real files: a per-run scratch directory, removed afterwards
            import os
            import tempfile
            from .iosim_netcdf import _make_template, NETCDF_LIBS
            root = tempfile.mkdtemp(prefix="imm-", dir=os.path.join(os.environ["MPSIM_SCRATCH"], "work"))
            shape0 = sc["producers"][0]["shape"]
            dims = [["d%d" % i, n] for i, n in enumerate(shape0)]
            _make_template(os.path.join(root, "template.nc"), {
                "dims": dims, "coords": {d: {"dtype": "f8", "values": [float(k) for k in range(n)], "attrs": {}}
                                         for d, n in dims},
                "var": {"name": "elev", "dtype": "f8", "fill": None}, "crs": False})
            program = Program(libraries=NETCDF_LIBS, working_dir=root)
            res.probe("NetCDF configuration (real scratch files)")
        else:
            program = Program(working_dir=WORK)
        mon.install(list(program.command_library.values()))
        try:
            for p in sc["producers"]:
                data = numpy.array([float(v) if isinstance(v, str) else v for v in p["values"]],
                                   dtype=("int64" if p["dtype"] == "i8" else "float64")).reshape(p["shape"])
                if p["maskkind"] == "nomask":
                    arr = numpy.ma.array(data)
                else:
                    m = numpy.array(p["mask"], dtype=bool).reshape(p["shape"])
                    if p.get("hidden") is not None and m.any():
                        data = data.copy()
                        data[m] = p["hidden"] if p["dtype"] == "f8" else int(p["hidden"])
                    arr = numpy.ma.array(data, mask=m)
                    if p["maskkind"] == "soft":
                        arr.soften_mask()
                cmd = Command(p["name"])
                cmd.is_finished = True
                cmd._result = arr
                if p["fuzzy"]:
                    cmd.is_fuzzy = True
                program.commands[p["name"]] = cmd
                holders[p["name"]] = cmd
                snaps[p["name"]] = snap(arr)
            if len(sc["producers"][0]["shape"]) >= 2:
                res.probe("producers of rank >= 2")
            if sc.get("drive") == "program-run":
                added = []
                for c in sc["consumers"]:
                    try:
                        program.add_command(program.find_command_class(c["cmd"]), c["name"], copy.deepcopy(c["args"]))
                        added.append(c)
                    except MPilotError as exc:
                        res.observe("consumer not added: %s" % type(exc).__name__)
                for attempt in range(3):
                    log.emit("op-begin", op="PROGRAM-RUN", attempt=attempt)
                    try:
                        program.run()
                        break
                    except SimAbort:
                        raise
                    except MPilotError as exc:
                        # a consumer failed legitimately: drop it (and what depends on it) and let the program run on
                        res.probe("consumer failed legitimately (still checked)")
                        bad = [n for n, cm in program.commands.items() if not cm.is_finished]
                        if not bad:
                            break
                        del program.commands[bad[0]]
                    except Exception as exc:  # noqa
                        res.observe("non-MPilot exception from program.run(): %s" % type(exc).__name__)
                        break
                check_all(added[-1]["name"] if added else "?", "and program.run() drove the evaluation")
                res.probe("evaluation driven by program.run()")
            for c in (sc["consumers"] if sc.get("drive") != "program-run" else []):
                try:
                    program.add_command(program.find_command_class(c["cmd"]), c["name"], copy.deepcopy(c["args"]))
                except MPilotError as exc:
                    res.observe("consumer not added: %s" % type(exc).__name__)
                    continue
                log.emit("op-begin", op="CONSUME", cmd=c["cmd"], name=c["name"])
                try:
                    program.commands[c["name"]].run()
                    res.probe("consumer executed")
                    refs = eems.refs_of(c)
                    if isinstance(c["args"].get("InFieldNames"), list) and len(c["args"]["InFieldNames"]) == 1:
                        res.probe("single-input n-ary consumer")
                    if len(refs) != len(set(refs)):
                        res.probe("same producer listed twice")
                    if any(r.startswith("k") for r in refs):
                        res.probe("consumer of a consumer")
                except SimAbort:
                    raise
                except MPilotError as exc:
                    res.probe("consumer failed legitimately (still checked)")
                    log.emit("consume-raise", exc=type(exc).__name__)
                except Exception as exc:  # noqa
                    res.observe("non-MPilot exception from a consumer (C13's business): %s" % type(exc).__name__)
                if sc.get("repeat_reads"):
                    for r in eems.refs_of(c)[:2]:
                        if r in program.commands:
                            try:
                                program.commands[r].result
                            except Exception:  # noqa
                                pass
                check_all(c["name"], "finished")
            if sc.get("final_run"):
                try:
                    program.run()
                except Exception as exc:  # noqa
                    res.observe("final run raised %s" % type(exc).__name__)
                check_all(sc["consumers"][-1]["name"] if sc["consumers"] else "?", "and a final program.run()")
                res.probe("program.run() after the history")
        finally:
            mon.uninstall()
            if root:
                import shutil
                shutil.rmtree(root, ignore_errors=True)
    res.case_key = h64([sc["producers"], sc["consumers"]])
    res.schedule_key = h64([[c["cmd"] for c in sc["consumers"]]])
    res.state_keys.add(h64([len(snaps), sorted({c["cmd"] for c in sc["consumers"]})[:6]]))
    res.nontrivial = len(sc["consumers"]) >= 2
    return res


def worker_init(scratch):
    from mpilot.program import Program
    from .iosim_netcdf import NETCDF_LIBS
    Program()
    Program(libraries=NETCDF_LIBS)


def shrink_candidates(sc):
    def clone():
        return copy.deepcopy(sc)

    used = set()
    for c in sc["consumers"]:
        used.update(eems.refs_of(c))
    for i in reversed(range(len(sc["consumers"]))):
        if sc["consumers"][i]["name"] in used:
            continue
        c = clone()
        del c["consumers"][i]
        yield c
    for i, p in enumerate(sc["producers"]):
        if p["name"] not in used and len(sc["producers"]) > 1:
            c = clone()
            del c["producers"][i]
            yield c
    for i, cm in enumerate(sc["consumers"]):
        v = cm["args"].get("InFieldNames")
        if isinstance(v, list) and len(v) > 1:
            for j in range(len(v)):
                c = clone()
                a = c["consumers"][i]["args"]
                del a["InFieldNames"][j]
                if "Weights" in a and len(a["Weights"]) > j:
                    del a["Weights"][j]
                if "NumberToConsider" in a:
                    a["NumberToConsider"] = max(1, min(a["NumberToConsider"], len(a["InFieldNames"])))
                yield c
    for flag in ("final_run", "repeat_reads"):
        if sc.get(flag):
            c = clone()
            c[flag] = False
            yield c
    # smaller arrays
    shape = sc["producers"][0]["shape"]
    if len(shape) > 1 and all(p["shape"] == shape for p in sc["producers"]):
        ncell = 1
        for n in shape:
            ncell *= n
        c = clone()
        for p in c["producers"]:
            p["shape"] = [ncell]
        yield c
    if len(shape) == 1 and shape[0] > 2 and all(p["shape"] == shape for p in sc["producers"]):
        for r in range(shape[0]):
            c = clone()
            for p in c["producers"]:
                del p["values"][r]
                del p["mask"][r]
                p["shape"] = [shape[0] - 1]
            yield c
    for i, p in enumerate(sc["producers"]):
        if p["maskkind"] != "allfalse":
            c = clone()
            c["producers"][i]["maskkind"] = "allfalse" if not any(p["mask"]) else "some"
            if c["producers"][i]["maskkind"] != p["maskkind"]:
                yield c
        if any(p["mask"]):
            c = clone()
            c["producers"][i]["mask"] = [False] * len(p["mask"])
            yield c


def sample(sc):
    return {"producers": [[p["name"], p["dtype"], p["shape"], p["maskkind"], "fuzzy" if p["fuzzy"] else "non-fuzzy",
                           p["values"][:6]] for p in sc["producers"]],
            "consumer_history": [[c["name"], c["cmd"], c["args"]] for c in sc["consumers"]][:12],
            "final_run": sc.get("final_run")}


RULES = {
    "C09": "Each case = 1-4 injected producer results (float64 / int64; no mask, all-false mask, some missing cells, "
           "soft mask; rank 1-3; fuzzy or not; a payload hidden beneath missing cells) followed by a seeded history of "
           "5-40 consumer executions drawn from all 32 data commands plus PrintVars and EEMSWrite on the simulated "
           "disk, with single-input forms of n-ary operators, the same producer listed twice, consumers of consumers, "
           "repeated result reads and an optional final program.run(). After every execute exit (normal or raising) "
           "every result produced so far is compared with the snapshot taken when it was produced. Distinct = "
           "distinct hash of (producers, consumer history); non-trivial = at least two consumers.",
}
ASSUMPTIONS = {
    "C09": [
        "snapshot = (shape, element type, mask bytes, data bytes at non-missing cells); the payload underneath missing "
        "cells is deliberately excluded (the clamp rewrites it and the statement speaks of missing cells and "
        "non-missing values only)",
        "a consumer returning the very object of its input is not a violation; consumers that fail legitimately still "
        "trigger the check",
        "injected fuzzy producers lie in [-1, +1], as every fuzzy result of the libraries does",
    ],
}
COMPONENTS = {
    "real": ["execute() of every built-in EEMS data command, PrintVars, csv EEMSWrite", "Command.run / result memo",
             "mpilot.params", "numpy.ma"],
    "stub": ["file system: SimFS", "producer results are injected finished commands"],
}


STATE_MEASURE = {'C09': 'abstract state = (number of results produced, consumer classes used); schedule key = sequence of consumer classes'}
