"""iosim/csv - write -> (environment corrupts a known cell / header) -> read histories on the
simulated disk (C17: CSV reading and writing are faithful).

Real: csv EEMSRead / EEMSWrite, Program.add_command / Command.run, params, csv, numpy.
Stub: SimFS, environment actor.  Programs are built through the API so that exotic header names and
numbers reach the code without passing through the parser.
"""
from __future__ import annotations

import copy
import csv as csvmod
import io
import re
import struct

from ..core import EventLog, RunResult, SimAbort, h64
from ..seams import ExecMonitor, Hygiene, StdCapture
from ..simfs import SimFS

ENGINE = "iosim_csv"
BUDGET = {"C17": {"quick": 12000, "thorough": 400000}}
WORK = "/sim/work"
PATH = WORK + "/table.csv"

NAMES = ("a\x0cb", "x\u2028y", "p\x85q", "v\x0bt", "A", "B2", "col c", "x,y", 'q"uote', "café", "Out", " lead", "trail ", "a;b", "'s", "#h", "R-1", "0", "T=1",
         "two\nlines", "unit\n(mm)")     # a quoted header name may span lines: the rows below it are further down the file
SPECIAL = (5e-324, -5e-324, 2.2250738585072014e-308, 1.7976931348623157e+308, -1.7976931348623157e+308, -0.0, 0.0,
           0.1, 1.0 / 3.0, 3.141592653589793, 1e-7, 123456789.12345679, 1e22, 9007199254740992.0, -2.5e-320, 1e300)


# ------------------------------------------------------------------------------------------------
def _hex(x):
    return float(x).hex()


def _val(v):
    return float.fromhex(v) if isinstance(v, str) else v


def generate(prop, rng, index, tier):
    ncols = rng.randint(1, 5)
    nrows = rng.choice([0, 1, 2, 3, 4, 6, 12])
    names = rng.sample(NAMES, ncols)
    cols = []
    for i in range(ncols):
        is_int = rng.random() < 0.3
        vals = []
        for _ in range(nrows):
            if is_int:
                vals.append(rng.choice([0, 1, -1, 7, -9999, 2 ** 53, -(2 ** 53), rng.randint(-1000, 1000)]))
            else:
                r = rng.random()
                if r < 0.35:
                    vals.append(_hex(rng.choice(SPECIAL)))
                elif r < 0.7:
                    vals.append(_hex(rng.randint(-64, 64) / 8.0))
                elif r < 0.85:
                    vals.append(_hex(rng.uniform(-1e6, 1e6)))
                else:
                    vals.append(_hex(rng.uniform(-1, 1) * 10 ** rng.randint(-300, 300)))
        mask = [False] * nrows
        if nrows and rng.random() < 0.15:
            for _ in range(rng.randint(1, 2)):
                mask[rng.randrange(nrows)] = True
        cols.append({"name": names[i], "dtype": "int" if is_int else "float", "values": vals, "mask": mask})
    listed = list(range(ncols))
    rng.shuffle(listed)
    if rng.random() < 0.12:
        listed.insert(rng.randrange(len(listed) + 1), rng.choice(listed))     # the same result listed twice
    actor = []
    if nrows and rng.random() < 0.55:
        for _ in range(rng.choice([1, 1, 2])):
            k = rng.random()
            if k < 0.45:
                actor.append({"do": "garbage-cell", "row": rng.randrange(nrows), "col": rng.randrange(ncols),
                              "text": rng.choice(["n/a", "", "NULL", "1;5x", "--", "1.2.3", "abc", "1 2", "0x1F", "#N/A", "# 5", "#12",
                                                  "%3", "!7", "//1"])})
            elif k < 0.52:
                # every cell of one row emptied (",," or a lone ""): not a blank line - the cells are there, and not numeric
                actor.append({"do": "empty-row", "row": rng.randrange(nrows)})
            elif k < 0.6:
                actor.append({"do": "rename-header", "col": rng.randrange(ncols), "to": rng.choice(["zz", "A ", "a"])})
            elif k < 0.74:
                actor.append({"do": "blank-after", "row": rng.randrange(nrows + 1)})
            elif k < 0.77:
                # one row has a cell more than the header (a trailing delimiter, a remark): the columns are all there
                actor.append({"do": "extra-cell", "row": rng.randrange(nrows), "text": rng.choice(["", "note", "7"])})
            elif k < 0.8:
                # blank lines in front of the header, or a byte-order mark (what spreadsheet programs put in front of UTF-8)
                actor.append({"do": rng.choice(["blank-before-header", "byte-order-mark"]), "n": rng.randint(1, 2)})
            else:
                actor.append({"do": "append-blank", "n": rng.randint(1, 3)})
    reads = []
    for _ in range(rng.randint(1, 4)):
        ci = rng.randrange(ncols)
        c = cols[ci]
        rd = {"col": ci, "missing": None, "dtype": None}
        r = rng.random()
        if r < 0.45 and nrows:
            present = [v for v, m in zip(c["values"], c["mask"]) if not m]
            if present and rng.random() < 0.7:
                rd["missing"] = rng.choice(present)
            else:
                rd["missing"] = rng.choice([-9999, _hex(-9999.5), _hex(1e20)]) if c["dtype"] == "float" else \
                    rng.choice([-77777, -77777, 10 ** 20, 2 ** 63, _hex(1e20), 2 ** 53 + 1])  # (numpy's default fill value is 1e20)
        r = rng.random()
        if r < 0.3:
            rd["dtype"] = "Float"
        elif r < 0.55 and c["dtype"] == "int":
            rd["dtype"] = "Integer"
        reads.append(rd)
    # a value one unit in the last place away from the declared missing value is a value, not a missing cell
    import math
    for rd in reads:
        c = cols[rd["col"]]
        if rd["missing"] is not None and c["dtype"] == "float" and nrows >= 2 and rng.random() < 0.4:
            mv = _val(rd["missing"])
            r2 = rng.randrange(nrows)
            if math.isfinite(mv) and not c["mask"][r2]:
                c["values"][r2] = _hex(math.nextafter(mv, math.inf if rng.random() < 0.5 else -math.inf))
    for rd in reads:
        rd["phase"] = "pre" if rng.random() < 0.3 else "post"
        rd["spelling"] = rng.choice(["abs", "rel", "dot", "dotdot"])
    rewrite = None
    if rng.random() < 0.3:
        keep = [i for i in listed if rng.random() < 0.7] or listed[:1]
        rng.shuffle(keep)
        rewrite = {"listed": keep, "spelling": rng.choice(["abs", "rel", "dot", "dotdot"])}
    inplace = None
    if rng.random() < 0.3:
        inplace = {"cols": [rng.randrange(8) for _ in range(rng.randint(1, 3))], "write_first": rng.random() < 0.6,
                   "how": rng.choice(["command", "program"]), "spelling": rng.choice(["abs", "rel", "dot"]),
                   "read_spelling": rng.choice(["abs", "rel", "dotdot"])}
    return {"engine": ENGINE, "prop": "C17", "columns": cols, "listed": listed, "actor": actor, "reads": reads,
            "rewrite": rewrite, "write_spelling": rng.choice(["abs", "rel", "dot"]), "inplace": inplace}


# ------------------------------------------------------------------------------------------------
def _bits(x):
    return struct.pack("<d", float(x))


def _spell(kind):
    """Different spellings of the same file."""
    return {"abs": PATH, "rel": "table.csv", "dot": WORK + "/./table.csv", "dotdot": WORK + "/sub/../table.csv"}.get(kind, PATH)


def _header_line(names):
    buf = io.StringIO()
    csvmod.writer(buf, lineterminator="\n").writerow(names)
    return buf.getvalue().rstrip("\n")


def execute(sc):
    import numpy
    from mpilot.program import Program
    from mpilot.commands import Command
    from mpilot.exceptions import MPilotError

    res = RunResult()
    log = EventLog(cap=20000)
    res.log = log
    cols = sc["columns"]
    nrows = len(cols[0]["values"]) if cols else 0
    log.emit("scenario", prop="C17", ncols=len(cols), nrows=nrows, actor=[a["do"] for a in sc["actor"]])
    fs = SimFS(log, res, files={}, dirs=[WORK])
    with Hygiene(), fs, StdCapture(log):
        program = Program(working_dir=WORK)
        mon = ExecMonitor(log)
        mon.install(list(program.command_library.values()))
        try:
            arrays = {}
            for c in cols:
                data = [_val(v) for v in c["values"]]
                arr = numpy.ma.array(data, dtype=(int if c["dtype"] == "int" else float),
                                     mask=list(c["mask"]) if any(c["mask"]) else False)
                cmd = Command(c["name"])
                cmd.is_finished = True
                cmd._result = arr
                program.commands[c["name"]] = cmd
                arrays[c["name"]] = arr
            listed = [cols[i]["name"] for i in sc["listed"]]
            # ---- WRITE ----------------------------------------------------------------------------------------
            program.add_command(program.find_command_class("EEMSWrite"), "__write__",
                                {"OutFileName": _spell(sc.get("write_spelling", "abs")), "OutFieldNames": listed})
            log.emit("op-begin", op="WRITE")
            try:
                program.commands["__write__"].run()
            except SimAbort:
                raise
            except Exception as exc:  # noqa
                res.violate("C17.write", "C17.write raised %s" % type(exc).__name__,
                            "writing %d columns x %d rows raised %r" % (len(cols), nrows, exc))
                return _finish(sc, res)
            text = fs.text(PATH)
            if text is None:
                res.violate("C17.write", "C17.write no-file", "EEMSWrite returned but the file does not exist")
                return _finish(sc, res)
            # ---- INSPECT: header = result names in listed order, one record per cell -------------------------------
            try:
                records = list(csvmod.reader(io.StringIO(text)))
            except Exception as exc:  # noqa
                records = None
            if not records or records[0] != listed:
                res.violate("C17.write", "C17.write header", "first record is %r, listed names are %r"
                            % (records[0] if records else None, listed))
                return _finish(sc, res)
            body = [r for r in records[1:] if r]
            if len(body) != nrows or any(len(r) != len(listed) for r in body):
                res.violate("C17.write", "C17.write record-count",
                            "%d data records of widths %r for %d rows x %d columns"
                            % (len(body), sorted({len(r) for r in body}), nrows, len(listed)))
                return _finish(sc, res)
            res.probe("written file has the header in listed order and one record per cell")
            if any(n != _header_line([n]) for n in listed):
                res.probe("header name needed CSV quoting")
            state = {"head_names": list(listed), "bad_cells": {}, "row_line": {r: r + 1 for r in range(nrows)}}
            for ci, c in enumerate(cols):
                if c["name"] in listed:
                    for r, m in enumerate(c["mask"]):
                        if m:
                            state["bad_cells"].setdefault(c["name"], []).append(r)

            def do_reads(phase):
                for k, rd in enumerate(sc["reads"]):
                    if rd.get("phase", "post") != phase:
                        continue
                    c = cols[rd["col"] % len(cols)]
                    name = c["name"]
                    args = {"InFileName": _spell(rd.get("spelling", "abs" if k % 2 == 0 else "rel")), "InFieldName": name}
                    mv = _val(rd["missing"]) if rd.get("missing") is not None else None
                    if mv is not None:
                        args["MissingVal"] = mv
                    if rd.get("dtype"):
                        args["DataType"] = rd["dtype"]
                    rname = "R%d" % k
                    program.add_command(program.find_command_class("EEMSRead"), rname, args)
                    log.emit("op-begin", op="READ", phase=phase, col=name, missing=repr(mv), dtype=rd.get("dtype"))
                    try:
                        got = program.commands[rname].result
                        err = None
                    except SimAbort:
                        raise
                    except Exception as exc:  # noqa
                        got, err = None, exc
                    log.emit("op-end", op="READ", ok=err is None, exc=type(err).__name__ if err else None)
                    _judge_read(res, c, name, rd, mv, got, err, state["head_names"], state["bad_cells"],
                                state["row_line"], nrows, MPilotError, numpy, lead=state.get("lead", 0))
                    if phase == "pre":
                        res.probe("column read before the file was changed")

            do_reads("pre")
            # ---- ACTOR: the environment corrupts known positions ---------------------------------------------------------
            lines = text.split("\n")
            if lines and lines[-1] == "":
                lines.pop()
            head_names = state["head_names"]
            hx = _header_line(head_names).count("\n")      # the header record may span lines: keep it one element
            if hx:
                lines = ["\n".join(lines[:hx + 1])] + lines[hx + 1:]
            row_line = state["row_line"]     # data row -> index into `lines`
            bad_cells = state["bad_cells"]   # column name -> data rows holding non-numeric text (a missing cell is text)
            for a in sc["actor"]:
                if a["do"] == "garbage-cell" and nrows:
                    r = a["row"] % nrows
                    li = row_line[r]
                    cells = lines[li].split(",")
                    pos = a["col"] % len(cells)
                    txt = a["text"].replace(",", ";")
                    if txt == "" and len(cells) == 1:
                        txt = "n/a"          # an empty only-cell would be a blank line, which is legitimately skipped
                    cells[pos] = txt
                    lines[li] = ",".join(cells)
                    if head_names.index(head_names[pos]) == pos:     # (a repeated name is read from its first column)
                        bad_cells.setdefault(head_names[pos], []).append(r)
                elif a["do"] == "empty-row" and nrows:
                    r = a["row"] % nrows
                    li = row_line[r]
                    ncell = len(lines[li].split(","))
                    lines[li] = '""' if ncell == 1 else "," * (ncell - 1)
                    for nm in head_names:
                        bad_cells.setdefault(nm, []).append(r)
                elif a["do"] == "rename-header":
                    pos = a["col"] % len(head_names)
                    if a["to"] not in head_names and len(set(head_names)) == len(head_names):
                        head_names[pos] = a["to"]
                        prefix = lines[0][:len(lines[0]) - len(lines[0].lstrip("\n\ufeff"))]
                        lines[0] = prefix + _header_line(head_names)
                elif a["do"] == "blank-after":
                    r = a["row"] % (nrows + 1)
                    at = (row_line[r - 1] + 1) if r > 0 else 1
                    lines.insert(at, "")
                    for k in row_line:
                        if row_line[k] >= at:
                            row_line[k] += 1
                elif a["do"] == "append-blank":
                    lines.extend([""] * a["n"])
                elif a["do"] == "extra-cell" and nrows:
                    li = row_line[a["row"] % nrows]
                    if lines[li].strip(","):
                        lines[li] = lines[li] + "," + a["text"]
                elif a["do"] == "blank-before-header":
                    if lines and not lines[0].startswith("\ufeff"):
                        lines[0] = "\n" * a["n"] + lines[0]      # (kept inside element 0: the header record spans lines)
                        state["lead"] = state.get("lead", 0) + a["n"]
                elif a["do"] == "byte-order-mark":
                    if lines and not lines[0].startswith(("\ufeff", "\n")):
                        lines[0] = "\ufeff" + lines[0]
                fs.files[PATH] = ("\n".join(lines) + "\n").encode("utf-8")
                fs.mutations += 1
                log.emit("actor", do=a["do"])
                res.fired("actor-" + a["do"])
            # ---- REWRITE through another spelling of the same path, with another selection of columns -----------------------
            rw = sc.get("rewrite")
            if rw:
                names2 = [cols[i % len(cols)]["name"] for i in rw["listed"]]
                program.add_command(program.find_command_class("EEMSWrite"), "__rewrite__",
                                    {"OutFileName": _spell(rw.get("spelling", "abs")), "OutFieldNames": names2})
                log.emit("op-begin", op="REWRITE", names=names2)
                try:
                    program.commands["__rewrite__"].run()
                except SimAbort:
                    raise
                except Exception as exc:  # noqa
                    res.violate("C17.write", "C17.write rewrite-raised %s" % type(exc).__name__,
                                "rewriting the file raised %r" % (exc,))
                    return _finish(sc, res)
                state["head_names"] = list(names2)
                state["row_line"] = {r: r + 1 for r in range(nrows)}
                state["bad_cells"] = {}
                state["lead"] = 0
                for c in cols:
                    if c["name"] in names2:
                        for r, m in enumerate(c["mask"]):
                            if m:
                                state["bad_cells"].setdefault(c["name"], []).append(r)
                res.probe("file rewritten through another spelling of its path")
            # ---- READ -----------------------------------------------------------------------------------------
            do_reads("post")
            # ---- UPDATE IN PLACE: a second program reads columns of the file and writes them back to the same file; the
            # write command is the one the client runs (or lists first), its inputs have not been evaluated yet ------------
            ip = sc.get("inplace")
            if ip and nrows and state["head_names"]:
                now = state["head_names"]
                sel = list(dict.fromkeys(now[i % len(now)] for i in ip["cols"]))
                byname = {c["name"]: c for c in cols}
                if all(nm in byname for nm in sel) and not any(state["bad_cells"].get(nm) for nm in now):
                    prog2 = Program(working_dir=WORK)
                    wargs = {"OutFileName": _spell(ip.get("spelling", "abs")), "OutFieldNames": ["u%d" % i for i in range(len(sel))]}
                    if ip.get("write_first"):
                        prog2.add_command(prog2.find_command_class("EEMSWrite"), "W", wargs)
                    for i, nm in enumerate(sel):
                        prog2.add_command(prog2.find_command_class("EEMSRead"), "u%d" % i,
                                          {"InFileName": _spell(ip.get("read_spelling", "abs")), "InFieldName": nm})
                    if not ip.get("write_first"):
                        prog2.add_command(prog2.find_command_class("EEMSWrite"), "W", wargs)
                    log.emit("op-begin", op="UPDATE-IN-PLACE", cols=sel, how=ip.get("how"))
                    try:
                        if ip.get("how") == "command":
                            prog2.commands["W"].run()
                        else:
                            prog2.run()
                        err = None
                    except SimAbort:
                        raise
                    except Exception as exc:  # noqa
                        err = exc
                    res.probe("file updated in place (read and written by one program)")
                    if err is not None:
                        res.violate("C17.write", "C17.write in-place-raised %s" % type(err).__name__,
                                    "reading %r from the file and writing them back to it raised %r" % (sel, err))
                    else:
                        recs = [r for r in csvmod.reader(io.StringIO(fs.text(PATH) or "")) if r]
                        want = [[float(_val(byname[nm]["values"][r])) for nm in sel] for r in range(nrows)]
                        try:
                            got = [[float(x) for x in r] for r in recs[1:]]
                        except ValueError:
                            got = None
                        if not recs or recs[0] != wargs["OutFieldNames"] or got is None or len(got) != nrows or any(
                                _bits(a) != _bits(b) for gr, wr in zip(got, want) for a, b in zip(gr, wr)) or any(
                                len(gr) != len(sel) for gr in got):
                            res.violate("C17.value", "C17.value in-place-update-lost-data",
                                        "after reading %r and writing them back to the same file it holds %r"
                                        % (sel, (fs.text(PATH) or "")[:120]))
        finally:
            mon.uninstall()
    return _finish(sc, res)


def _judge_read(res, c, name, rd, mv, got, err, head_names, bad_cells, row_line, nrows, MPilotError, numpy, lead=0):
    if name not in head_names:
        # header removed: the error must name the header
        if err is None:
            res.violate("C17.header", "C17.header missing-header-not-reported", "column %r is gone but the read succeeded" % name)
        elif type(err).__name__ != "InvalidDataFile" or name not in str(err):
            res.violate("C17.header", "C17.header wrong-report %s" % type(err).__name__,
                        "missing header %r reported as %s: %s" % (name, type(err).__name__, str(err)[:160]))
        else:
            res.probe("missing header reported by name")
        return
    if bad_cells.get(name):
        first = min(bad_cells[name])
        # 1-based physical line of the first non-numeric cell of this column (the header record may span several lines)
        true_line = row_line[first] + 1 + _header_line(head_names).count("\n") + lead
        if err is None:
            res.violate("C17.cell", "C17.cell non-numeric-cell-not-reported",
                        "column %r has a non-numeric cell on line %d but the read succeeded" % (name, true_line))
            return
        msg = str(err)
        m = re.search(r"line (\d+)", msg)
        if type(err).__name__ != "InvalidDataFile":
            res.violate("C17.cell", "C17.cell wrong-report %s" % type(err).__name__,
                        "non-numeric cell of %r reported as %s: %s" % (name, type(err).__name__, msg[:160]))
        elif not m or int(m.group(1)) != true_line:
            res.violate("C17.cell", "C17.cell wrong-line",
                        "non-numeric cell of %r is on file line %d, the error says %s" % (name, true_line,
                                                                                           m.group(1) if m else "nothing"))
        elif name not in msg:
            res.violate("C17.cell", "C17.cell column-not-named", "error does not name the column %r: %s" % (name, msg[:160]))
        else:
            res.probe("non-numeric cell reported with its file line")
        return
    if err is not None:
        res.violate("C17.read", "C17.read raised %s" % type(err).__name__,
                    "reading intact column %r raised %r" % (name, err))
        return
    if bad_cells:
        res.probe("read unaffected by garbage in another column")
    if not isinstance(got, numpy.ndarray) or got.shape != (nrows,):
        res.violate("C17.read", "C17.read shape", "column %r read back as %r" % (name, getattr(got, "shape", type(got))))
        return
    want_int = rd.get("dtype") == "Integer"
    dt = numpy.ma.getdata(got).dtype
    if want_int and dt.kind != "i":
        res.violate("C17.read", "C17.read element-type", "Integer requested, element type is %s" % dt)
        return
    if not want_int and dt != numpy.float64:
        res.violate("C17.read", "C17.read element-type", "Float (default) requested, element type is %s" % dt)
        return
    mask = numpy.ma.getmaskarray(got)
    data = numpy.ma.getdata(got)
    for r in range(nrows):
        v = _val(c["values"][r])
        # (an Integer read compares integers: above 2**53 neighbouring integers are one double)
        is_missing = mv is not None and ((int(v) == int(mv)) if want_int and isinstance(v, int) and isinstance(mv, int)
                                         else float(v) == float(mv))
        if bool(mask[r]) != is_missing:
            res.violate("C17.mask", "C17.mask %s" % ("cell-not-masked" if is_missing else "cell-wrongly-masked"),
                        "column %r row %d value %r, missing value %r: mask is %r" % (name, r, v, mv, bool(mask[r])))
            return
        if is_missing:
            res.probe("cell equal to the declared missing value is masked")
            continue
        if _bits(data[r]) != _bits(v):
            res.violate("C17.value", "C17.value not-bit-identical %s" % ("int" if c["dtype"] == "int" else "float"),
                        "column %r row %d: wrote %r (%s), read back %r (%s)"
                        % (name, r, v, float(v).hex(), float(data[r]), float(data[r]).hex()))
            return
    res.probe("column read back bit-identical")
    if want_int:
        res.probe("integer element type requested and delivered")


def _finish(sc, res):
    res.case_key = h64([sc["columns"], sc["listed"], sc["actor"], sc["reads"]])
    res.schedule_key = h64([[a["do"] for a in sc["actor"]], len(sc["reads"])])
    res.state_keys.add(h64([len(sc["columns"]), len(sc["columns"][0]["values"]), [a["do"] for a in sc["actor"]]]))
    res.nontrivial = len(sc["columns"][0]["values"]) >= 1
    return res


def worker_init(scratch):
    from mpilot.program import Program
    Program()


def shrink_candidates(sc):
    def clone():
        return copy.deepcopy(sc)

    for i in range(len(sc["actor"])):
        c = clone()
        del c["actor"][i]
        yield c
    if sc.get("rewrite"):
        c = clone()
        c["rewrite"] = None
        yield c
        if sc["rewrite"].get("spelling") != "abs":
            c = clone()
            c["rewrite"]["spelling"] = "abs"
            yield c
    if sc.get("write_spelling", "abs") != "abs":
        c = clone()
        c["write_spelling"] = "abs"
        yield c
    for i, rd in enumerate(sc["reads"]):
        if rd.get("phase") == "pre":
            c = clone()
            c["reads"][i]["phase"] = "post"
            yield c
        if rd.get("spelling", "abs") != "abs":
            c = clone()
            c["reads"][i]["spelling"] = "abs"
            yield c
    if len(sc["reads"]) > 1:
        for i in range(len(sc["reads"])):
            c = clone()
            del c["reads"][i]
            yield c
    ncols = len(sc["columns"])
    if ncols > 1:
        used = {rd["col"] % ncols for rd in sc["reads"]}
        for i in range(ncols):
            if i in used:
                continue
            c = clone()
            del c["columns"][i]
            c["listed"] = [j - (1 if j > i else 0) for j in c["listed"] if j != i]
            if c.get("rewrite"):
                c["rewrite"]["listed"] = [j - (1 if j > i else 0) for j in c["rewrite"]["listed"] if j != i] or [0]
            for rd in c["reads"]:
                rd["col"] = (rd["col"] % ncols) - (1 if (rd["col"] % ncols) > i else 0)
            yield c
    nrows = len(sc["columns"][0]["values"])
    for r in range(nrows):
        c = clone()
        for col in c["columns"]:
            del col["values"][r]
            del col["mask"][r]
        yield c
    for i, col in enumerate(sc["columns"]):
        if col["name"] != "A" and not any(x["name"] == "A" for x in sc["columns"]):
            c = clone()
            c["columns"][i]["name"] = "A"
            yield c
        if any(col["mask"]):
            c = clone()
            c["columns"][i]["mask"] = [False] * nrows
            yield c
    for i, rd in enumerate(sc["reads"]):
        if rd.get("missing") is not None:
            c = clone()
            c["reads"][i]["missing"] = None
            yield c
        if rd.get("dtype"):
            c = clone()
            c["reads"][i]["dtype"] = None
            yield c
    if sc["listed"] != sorted(sc["listed"]):
        c = clone()
        c["listed"] = sorted(c["listed"])
        yield c


def sample(sc):
    return {"columns": [[c["name"], c["dtype"], [_val(v) for v in c["values"]][:6], c["mask"][:6]] for c in sc["columns"]],
            "written_in_order": [sc["columns"][i]["name"] for i in sc["listed"]], "environment_actor": sc["actor"],
            "reads": [[sc["columns"][rd["col"] % len(sc["columns"])]["name"],
                       None if rd.get("missing") is None else _val(rd["missing"]), rd.get("dtype"), rd.get("phase"),
                       rd.get("spelling")] for rd in sc["reads"]],
            "rewrite": sc.get("rewrite")}


RULES = {
    "C17": "Each case = a table of 1-5 columns x 0-12 rows (dyadic lattice, subnormals, +-DBL_MAX, -0.0, long "
           "mantissas, integers up to 2^53; header names with commas, quotes, spaces, non-ASCII; some masked cells) "
           "written by EEMSWrite to the simulated disk, inspected, optionally corrupted by the environment actor at a "
           "known position (garbage in one cell, header renamed, blank lines inserted / appended), then read back "
           "column by column with seeded MissingVal / DataType combinations. Distinct = distinct hash of the whole "
           "scenario; non-trivial = at least one row.",
}
ASSUMPTIONS = {
    "C17": [
        "header names contain no line breaks; integers stay within +-2^53 (the quantifier is over finite doubles)",
        "missing cells written out are not read back as numbers: a masked producer cell is written as text and must be "
        "reported, like any non-numeric cell, with its file line",
        "Integer element type is only requested for integer-valued columns (truncation rules are not specified)",
    ],
}
COMPONENTS = {
    "real": ["mpilot.libraries.eems.csv.io.EEMSRead / EEMSWrite", "mpilot.program / commands / params", "csv", "numpy"],
    "stub": ["file system: SimFS", "environment actor (file rewritten between write and read)"],
}


STATE_MEASURE = {'C17': 'abstract state = (columns, rows, actor steps); schedule key = (actor steps, number of reads)'}
