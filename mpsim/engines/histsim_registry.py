"""histsim/registry - process histories over the process-global command registry (C19).

Every history runs in a fresh forked child in which mpilot has not been imported yet.  The registry
set is replaced, before any library is loaded, by a set subclass whose iteration order is a seeded
permutation, so the registry's own nondeterminism (address / hash-seed dependent order) is under the
simulator's control.  Real: CommandMeta registration, Program.__init__/load_commands/from_source/run.
Stub: the user libraries' execute bodies (they return the tag of their defining module).
"""
from __future__ import annotations

import copy
import os
import pickle
import random
import sys
import traceback

from ..core import EventLog, RunResult, HarnessError, h64

ENGINE = "histsim_registry"
NEEDS_MPILOT = False   # the pool worker must NOT import mpilot: each history starts from a clean process
ISOLATES = True        # this engine forks one child per history itself
BUDGET = {"C19": {"quick": 7200, "thorough": 80000}}

CMD_NAMES = ("Foo", "Bar", "Baz", "Qux", "Quux", "Corge", "Grault", "Sum")
BUILTIN = {
    "csv": ("mpilot.libraries.eems.basic", "mpilot.libraries.eems.csv", "mpilot.libraries.eems.fuzzy"),
    "netcdf": ("mpilot.libraries.eems.basic", "mpilot.libraries.eems.netcdf", "mpilot.libraries.eems.fuzzy"),
}


# ------------------------------------------------------------------------------------------------
# generation
# ------------------------------------------------------------------------------------------------
def _cmds(rng, k):
    out = []
    for nm in rng.sample(CMD_NAMES[:7], k):
        cls = nm + rng.choice(["", "", "Impl"])
        out.append([cls, nm if cls != nm else None])
    if rng.random() < 0.08:
        # "override by subclassing": a user command derived from a built-in one that keeps the built-in's name
        out.append(["Sum", None, "builtin:Sum"])
    if rng.random() < 0.1:
        # a user command named like an EEMS 2.0 keyword (files are only loaded with its other commands, see V2LOAD)
        out.append(["UserMax", "MAX"])
    r = rng.random()
    if r < 0.06:
        # one module defines the same command name twice (two classes)
        first = out[0]
        out.append([first[0] + "Alt", first[1] or first[0]])
    elif r < 0.12:
        # a command that gets its public name after its class statement
        first = out[0]
        out[0] = [first[0] + "Late", first[1] or first[0], "late"]
    return out


def generate(prop, rng, index, tier):
    base = rng.choice(["ulib", "ulib", "mylib", "tests_like"])
    names = [base, base + "_x", base + "x", base[:-1], base + "2"]
    rng.shuffle(names)
    nmods = rng.randint(2, 4)
    universe = []
    chosen = [base] + [n for n in names if n != base][: nmods - 1]
    for nm in chosen:
        spec = {"name": nm, "package": rng.random() < 0.35, "commands": _cmds(rng, rng.randint(1, 2)), "subs": []}
        if spec["package"]:
            for s in rng.sample(["sub", "io", "extra", "_legacy"], rng.randint(1, 2)):
                spec["subs"].append({"name": s, "commands": _cmds(rng, 1)})
            if rng.random() < 0.3 and not any(u.get("flaky") for u in universe):
                # a sub-package that needs an optional dependency: importing it fails until the dependency is installed
                spec["subs"].append({"name": "opt", "commands": _cmds(rng, 1), "pkg": True, "flaky": True})
                spec["flaky"] = True
        universe.append(spec)
    # a library whose name differs from a dotted sub-library name only in the dot (lib_sub / libxsub next to lib.sub)
    for spec in list(universe):
        if spec["package"] and spec["subs"] and rng.random() < 0.5:
            sub = rng.choice(spec["subs"])["name"]
            look = spec["name"] + rng.choice(["_", "x", "0"]) + sub
            if all(u["name"] != look for u in universe):
                universe.append({"name": look, "package": False, "commands": _cmds(rng, rng.randint(1, 2)), "subs": []})
    mods = []
    for spec in universe:
        mods.append(spec["name"])
        for s in spec["subs"]:
            mods.append(spec["name"] + "." + s["name"])
    flaky = {s["name"] for s in universe if s.get("flaky")}
    mods = [m for m in mods if not any(m == f + ".opt" for f in flaky)]
    tops_all = [s["name"] for s in universe]
    tops = [t for t in tops_all if t not in flaky]     # (LOAD / BUILTIN / CLI requests leave the flaky package alone)
    ops = []
    for _ in range(rng.randint(3, 12)):
        r = rng.random()
        if r < 0.22:
            ops.append(["IMPORT", rng.choice(mods)])
        elif r < 0.34:
            ops.append(["DEFINE", rng.choice(mods), rng.choice(["Late", "Later"]), rng.choice(CMD_NAMES[:7] + ("Zed",))])
        elif r < 0.72:
            libs = rng.sample(tops_all, rng.randint(1, min(3, len(tops_all))))
            if rng.random() < 0.3 and any(s["package"] for s in universe):
                pk = rng.choice([s for s in universe if s["package"]])
                libs = [pk["name"] + "." + rng.choice(pk["subs"])["name"]]
            if rng.random() < 0.15 and any(s["package"] for s in universe):
                pk = rng.choice([s for s in universe if s["package"]])
                pair = [pk["name"], pk["name"] + "." + rng.choice(pk["subs"])["name"]]
                rng.shuffle(pair)
                libs = pair
            if rng.random() < 0.06:
                libs = libs + ["nolib_zz"] if rng.random() < 0.5 else ["nolib_zz"] + libs   # not installed
            elif rng.random() < 0.06:
                libs = []                                                                      # the empty subset
            # the library names may arrive as a tuple, a list or any other iterable of names
            ops.append(["PROGRAM", libs, rng.choice(["tuple", "tuple", "tuple", "list", "generator", "iterator"])])
        elif r < 0.87:
            libs = rng.sample(tops, rng.randint(1, min(2, len(tops))))
            defined = [c[1] or c[0] for sp in universe if sp["name"] in libs for c in sp["commands"] if (c[1] or c[0]) != "MAX"]
            defined = defined or [CMD_NAMES[0]]
            ops.append(["LOAD", libs, rng.choice(defined) if rng.random() < 0.75 else rng.choice(CMD_NAMES[:7])])
        elif r < 0.94:
            cfg = rng.choice(["csv", "netcdf"])
            libs = rng.sample(tops, rng.randint(0, min(1, len(tops))))
            ops.append(["BUILTIN", cfg, libs, rng.random() < 0.5])
        else:
            # the command-line tool invoked in this process (as an embedding application or a test runner would)
            libs = rng.sample(tops, rng.randint(0, min(2, len(tops))))
            defined = [c[1] or c[0] for sp in universe if sp["name"] in libs for c in sp["commands"] if (c[1] or c[0]) != "MAX"]
            name = rng.choice(defined) if defined and rng.random() < 0.7 else rng.choice(CMD_NAMES[:7])
            ops.append(["CLI", rng.choice(["csv", "netcdf"]), libs, name])
    for f in sorted(flaky):
        if rng.random() < 0.7:
            ops.insert(rng.randint(0, len(ops)), ["INSTALL", f])       # the dependency arrives at some point
        if rng.random() < 0.7:
            ops.insert(rng.randint(0, len(ops)), ["PROGRAM", [f] if rng.random() < 0.7 else [f + ".opt"]])
    if rng.random() < 0.3:
        # an EEMS 2.0 style file over the built-in libraries, somewhere in the history
        ops.insert(rng.randint(0, len(ops)), ["V2LOAD"])
    # the same request repeated at another point of the history
    progs = [op for op in ops if op[0] == "PROGRAM"]
    if progs and rng.random() < 0.6:
        ops.append(copy.deepcopy(rng.choice(progs)))
    return {"engine": ENGINE, "prop": "C19", "universe": universe, "ops": ops, "perm_seed": rng.randrange(1 << 30)}


# ------------------------------------------------------------------------------------------------
# the child process
# ------------------------------------------------------------------------------------------------
MODULE_TMPL = '''from mpilot import params
from mpilot.commands import Command
'''
CLASS_TMPL = '''
class {cls}(Command):
{name_line}    inputs = {{}}
    output = params.Parameter()
    TAG = __name__ + ":{cls}"

    def execute(self, **kwargs):
        return type(self).TAG
'''


FLAKY_TMPL = '''import os
if not os.path.exists(os.path.join(os.path.dirname(__file__), "DEP_INSTALLED")):
    raise ImportError("the optional dependency of %s is not installed" % __name__)
'''

SUBCLASS_TMPL = '''
from mpilot.libraries.eems.basic import {base} as _Base{base}


class {cls}(_Base{base}):
    TAG = __name__ + ":{cls}"

    def execute(self, **kwargs):
        return type(self).TAG
'''


def _class_src(cls, name, kind=None):
    if kind and kind.startswith("builtin:"):
        return SUBCLASS_TMPL.format(cls=cls, base=kind.split(":")[1])
    if kind == "late":
        return CLASS_TMPL.format(cls=cls, name_line="") + '\n%s.name = "%s"\n' % (cls, name)
    return CLASS_TMPL.format(cls=cls, name_line=('    name = "%s"\n' % name) if name else "")


def _write_universe(root, universe):
    for spec in universe:
        body = MODULE_TMPL + "".join(_class_src(*c) for c in spec["commands"])
        if spec["package"]:
            d = os.path.join(root, spec["name"])
            os.makedirs(d)
            with open(os.path.join(d, "__init__.py"), "w") as f:
                f.write(body)
            for s in spec["subs"]:
                if s.get("pkg"):
                    os.makedirs(os.path.join(d, s["name"]))
                    with open(os.path.join(d, s["name"], "__init__.py"), "w") as f:
                        f.write(FLAKY_TMPL + MODULE_TMPL + "".join(_class_src(*c) for c in s["commands"]))
                    continue
                with open(os.path.join(d, s["name"] + ".py"), "w") as f:
                    f.write(MODULE_TMPL + "".join(_class_src(*c) for c in s["commands"]))
        else:
            with open(os.path.join(root, spec["name"] + ".py"), "w") as f:
                f.write(body)


def _make_permset(perm_seed):
    class PermSet(set):
        """A set whose iteration order is a seeded permutation of insertion order."""

        def __init__(self, items=()):
            super().__init__()
            self._order = []
            self._iters = 0
            for x in items:
                self.add(x)

        def add(self, x):
            if x not in self:
                self._order.append(x)
            super().add(x)

        def discard(self, x):
            super().discard(x)
            if x in self._order:
                self._order.remove(x)

        def remove(self, x):
            super().remove(x)
            if x in self._order:
                self._order.remove(x)

        def clear(self):
            super().clear()
            self._order = []

        def __iter__(self):
            self._iters += 1
            order = [x for x in self._order if set.__contains__(self, x)]
            random.Random("perm:%d:%d:%d" % (perm_seed, len(order), self._iters)).shuffle(order)
            return iter(order)

    return PermSet


def belongs(module, libs):
    return any(module == lib or module.startswith(lib + ".") for lib in libs)


def relation(module, libs):
    """How an offending module relates to the requested libraries (for narrow signatures)."""
    for lib in libs:
        if module.startswith(lib) and not (module == lib or module.startswith(lib + ".")):
            return "shares-prefix-with-requested"
    for lib in libs:
        if lib.startswith(module + "."):
            return "parent-of-requested"
    if belongs(module, libs):
        return "inside-requested"
    return "unrelated-to-requested"


def _child(sc, scratch, wfd):
    """Runs in the forked child; writes pickled (events, summary) to wfd."""
    res = RunResult()
    log = EventLog(cap=20000)
    res.log = log
    try:
        from .. import loader
        import shutil
        import tempfile
        root = tempfile.mkdtemp(prefix="reg-", dir=os.path.join(scratch, "work"))
        try:
            _write_universe(root, sc["universe"])
            os.environ["MPSIM_REG_ROOT"] = root
            sys.path.insert(0, root)
            loader.activate(scratch, import_mpilot=False)
            if any(m == "mpilot" or m.startswith("mpilot.") for m in sys.modules):
                raise HarnessError("mpilot was already imported in the parent of the history process")
            import importlib
            importlib.invalidate_caches()
            import mpilot.commands as mc
            PermSet = _make_permset(sc["perm_seed"])
            ps = PermSet(mc.CommandMeta._commands)
            mc.CommandMeta._commands = ps
            mc.Command._commands = ps
            from mpilot.program import Program
            from mpilot.exceptions import MPilotError
            _run_history(sc, res, log, Program, MPilotError, mc, importlib)
        finally:
            shutil.rmtree(root, ignore_errors=True)
        payload = ("ok", log.events, res.summary())
    except BaseException as exc:  # noqa
        payload = ("harness", "%s: %s\n%s" % (type(exc).__name__, exc, traceback.format_exc()[-2000:]), None)
    data = pickle.dumps(payload)
    os.write(wfd, len(data).to_bytes(8, "big"))
    off = 0
    while off < len(data):
        off += os.write(wfd, data[off:off + 65536])


def _static_commands(universe):
    """module name -> list of (command name, class name) as written in the files."""
    out = {}
    for spec in universe:
        out[spec["name"]] = [(c[1] or c[0], c[0]) for c in spec["commands"]]
        for s in spec["subs"]:
            out[spec["name"] + "." + s["name"]] = [(c[1] or c[0], c[0]) for c in s["commands"]]
    return out


def _run_history(sc, res, log, Program, MPilotError, mc, importlib):
    static = _static_commands(sc["universe"])
    packages = {s["name"]: [s["name"] + "." + x["name"] for x in s["subs"]] for s in sc["universe"] if s["package"]}
    dynamic = []   # (module, command name, class name) defined by DEFINE ops, in order
    answers = {}   # request -> first answer (for the same-answer-at-every-point check)
    log.emit("scenario", prop="C19", nops=len(sc["ops"]))

    def expected(libs):
        """Reference registry: name -> defining module, or the set of duplicated names."""
        loaded = set()
        for lib in libs:
            if lib in static:
                loaded.add(lib)
                for sub in packages.get(lib, []):
                    loaded.add(sub)
        pairs = []
        twice = set()
        classes = {}       # (module, command name) -> names of the classes that define it
        for mod in sorted(loaded):
            for name, cls in static[mod]:
                classes.setdefault((mod, name), set()).add(cls)
                pairs.append((mod, name))
        for mod, name, cls in dynamic:
            if belongs(mod, libs):
                # (a class name used before in that module is the same class defined again, not another one)
                known = {c for (m, n), cs in classes.items() if m == mod for c in cs} | {c for n, c in static.get(mod, [])}
                if cls in known and cls not in classes.get((mod, name), set()):
                    continue
                classes.setdefault((mod, name), set()).add(cls)
                if (mod, name) not in pairs:
                    pairs.append((mod, name))
        for (mod, name), cs in classes.items():
            if len(cs) > 1:
                twice.add(name)
        # commands registered by earlier imports of modules inside a requested library
        for mod in imported:
            if belongs(mod, libs) and mod in static:
                for name, cls in static[mod]:
                    if (mod, name) not in pairs:
                        pairs.append((mod, name))
        names = {}
        dups = set(twice)
        for mod, name in pairs:
            if name in names and names[name] != mod:
                dups.add(name)
            names.setdefault(name, mod)
        return names, dups

    flaky = {s["name"] for s in sc["universe"] if s.get("flaky")}
    installed = set()

    def needs_missing_dependency(libs):
        for lib in libs:
            top = lib.split(".")[0]
            if top in flaky and top not in installed and lib in (top, top + ".opt"):
                return True
        return False

    imported = set()

    def note_import(mod):
        imported.add(mod)
        if "." in mod:
            imported.add(mod.split(".")[0])   # importing a submodule imports its package first

    def check_program(libs, builtin=None, label="PROGRAM", container="tuple"):
        libs_all = tuple(BUILTIN[builtin]) + tuple(libs) if builtin else tuple(libs)

        def as_given():
            if container == "list":
                return list(libs_all)
            if container == "generator":
                return (x for x in libs_all)
            if container == "iterator":
                return iter(list(libs_all))
            return libs_all
        if container != "tuple":
            res.probe("library names given as a " + container)
        if needs_missing_dependency(libs_all) and "nolib_zz" not in libs_all:
            # part of a requested library cannot be imported yet: the request fails (how is not this property's business),
            # it is never answered with the part that could be loaded
            try:
                Program(libraries=libs_all)
                res.violate("C19.lookup", "C19.lookup partial-library-accepted",
                            "Program(libraries=%r) was constructed although a sub-package of a requested library cannot "
                            "be imported" % (libs_all,))
            except Exception as exc:  # noqa
                log.emit("program", libs=list(libs_all), ok=False, exc=type(exc).__name__)
            for lib in libs_all:
                if lib in static:
                    note_import(lib)
            res.probe("request while a sub-package of the library cannot be imported")
            return None
        if "nolib_zz" in libs_all:
            # a requested library is not installed: construction fails (how is not this property's business); what was
            # imported before the failure stays imported, and later requests must be answered as always
            try:
                Program(libraries=libs_all)
                res.violate("C19.lookup", "C19.lookup missing-library-accepted", "Program(libraries=%r) was constructed" % (libs_all,))
            except Exception as exc:  # noqa
                log.emit("program", libs=list(libs_all), ok=False, exc=type(exc).__name__)
            for lib in libs_all[:libs_all.index("nolib_zz")]:
                if lib in static:
                    note_import(lib)
                    for sub in packages.get(lib, []):
                        imported.add(sub)
            res.probe("request that names a library which is not installed")
            return None
        try:
            program = Program(libraries=as_given())
            err = None
        except Exception as exc:  # noqa
            program, err = None, exc
        for lib in libs:
            note_import(lib)
            for sub in packages.get(lib, []):
                imported.add(sub)
        names, dups = expected(libs)
        if builtin:
            from ..refmodel.declarations import table
            bnames = set(table(builtin)) - {"Metadata"}
            for n in list(names):
                if n in bnames:
                    dups.add(n)
        key = repr((label, libs_all))
        log.emit("program", libs=list(libs_all), ok=err is None, exc=type(err).__name__ if err else None)
        res.state_keys.add(h64([sorted(imported), sorted(set(dynamic)), list(libs_all)]))
        if err is not None:
            if not isinstance(err, MPilotError):
                res.violate("C19.error", "C19.error construction-raised-%s" % type(err).__name__,
                            "Program(libraries=%r) raised %r" % (libs_all, err))
                return None
            if not dups:
                # which foreign command caused it?
                offenders = sorted({info.module for info in mc.Command.get_commands()
                                    if not belongs(info.module, libs_all)
                                    and any(info.module.startswith(lib) for lib in libs_all)})
                rel = relation(offenders[0], libs_all) if offenders else "unknown-cause"
                res.violate("C19.spurious", "C19.spurious duplicate-error %s" % rel,
                            "Program(libraries=%r) failed with %r although the requested libraries define no name "
                            "twice; foreign modules in the registry: %r" % (libs_all, str(err)[:120], offenders))
            else:
                res.probe("duplicate names among requested libraries rejected at construction")
            ans = ("error",)
        else:
            if dups:
                res.violate("C19.dup", "C19.dup duplicate-not-rejected",
                            "Program(libraries=%r) was constructed although %r are defined twice" % (libs_all, sorted(dups)))
                ans = ("constructed-despite-dups",)
            else:
                got = {}
                for name, cls in program.command_library.items():
                    if cls.__module__.startswith("mpilot.") or name == "Command":
                        continue
                    got[name] = cls.__module__
                extra = sorted(n for n in got if n not in names)
                missing = sorted(n for n in names if n not in got)
                wrong = sorted(n for n in got if n in names and got[n] != names[n])
                if extra:
                    rel = relation(got[extra[0]], libs_all)
                    res.violate("C19.lookup", "C19.lookup foreign-command-visible %s" % rel,
                                "Program(libraries=%r) can use %r from %r, which is not a requested library"
                                % (libs_all, extra[0], got[extra[0]]))
                if missing:
                    res.violate("C19.lookup", "C19.lookup requested-command-missing",
                                "Program(libraries=%r) lacks %r (defined in %r)" % (libs_all, missing[0], names[missing[0]]))
                if wrong:
                    rel = relation(got[wrong[0]], libs_all)
                    res.violate("C19.lookup", "C19.lookup wrong-implementation %s" % rel,
                                "Program(libraries=%r): %r resolves to %r instead of %r"
                                % (libs_all, wrong[0], got[wrong[0]], names[wrong[0]]))
                if builtin:
                    from ..refmodel.declarations import table
                    bn = set(table(builtin))
                    have = {n for n, c in program.command_library.items() if c.__module__.startswith("mpilot.libraries")}
                    if have != bn:
                        res.violate("C19.lookup", "C19.lookup builtin-set-differs",
                                    "built-in %s configuration offers %r" % (builtin, sorted(have ^ bn)))
                    mods = {c.__module__ for n, c in program.command_library.items() if n in ("EEMSRead", "EEMSWrite")}
                    if any(builtin not in m for m in mods):
                        res.violate("C19.lookup", "C19.lookup builtin-wrong-io-module",
                                    "%s configuration resolves EEMSRead/EEMSWrite to %r" % (builtin, sorted(mods)))
                ans = ("ok", tuple(sorted(got.items())))
                if not (extra or missing or wrong):
                    res.probe("program constructed and its name -> module map verified")
                    if len(libs_all) > 1:
                        res.probe("several libraries requested together without a name clash")
        # dynamic definitions legitimately change the answer; compare only under an equal dynamic state
        akey = (key, tuple(sorted(d for d in set(dynamic) if belongs(d[0], libs_all))))
        if akey in answers and answers[akey] != ans:
            res.violate("C19.history", "C19.history same-request-different-answer",
                        "request %s answered %r earlier and %r now" % (key, answers[akey], ans))
        if akey in answers:
            res.probe("same request repeated later in the history")
        answers.setdefault(akey, ans)
        return program

    for op in sc["ops"]:
        log.emit("op-begin", op=op)
        if op[0] == "IMPORT":
            try:
                importlib.import_module(op[1])
                note_import(op[1])
                res.probe("library imported by someone else")
            except Exception as exc:  # noqa
                raise HarnessError("cannot import generated module %s: %r" % (op[1], exc))
        elif op[0] == "DEFINE":
            mod = importlib.import_module(op[1])
            note_import(op[1])
            exec(_class_src(op[2], op[3] if op[3] != op[2] else None), mod.__dict__)
            dynamic.append((op[1], op[3], op[2]))
            res.probe("class defined later inside a library module")
        elif op[0] == "INSTALL":
            with open(os.path.join(os.environ["MPSIM_REG_ROOT"], op[1], "opt", "DEP_INSTALLED"), "w") as f:
                f.write("ok\n")
            importlib.invalidate_caches()
            installed.add(op[1])
            log.emit("install", pkg=op[1])
            res.probe("optional dependency of a sub-package installed during the history")
        elif op[0] == "PROGRAM":
            check_program(op[1], container=op[2] if len(op) > 2 else "tuple")
        elif op[0] == "BUILTIN":
            check_program(op[2], builtin=op[1], label="BUILTIN")
            res.probe("built-in %s configuration" % op[1])
        elif op[0] == "CLI":
            cfg, libs, name = op[1], op[2], op[3]
            import io
            from mpilot.cli.mpilot import main as cli_main
            path = os.path.join(os.environ["MPSIM_REG_ROOT"], "model_%d.mpt" % len(answers))
            with open(path, "w") as f:
                f.write("X = %s()\n" % name)
            argv = ["eems-" + cfg, path]
            for lib in libs:
                argv += ["-l", lib]
            so, se = sys.stdout, sys.stderr
            sys.stdout, sys.stderr = io.StringIO(), io.StringIO()
            code, err = 0, None
            try:
                cli_main.main(args=argv, standalone_mode=False)
            except SystemExit as exc:
                code = exc.code
            except Exception as exc:  # noqa
                err = exc
            finally:
                sys.stdout, sys.stderr = so, se
            for lib in libs:
                note_import(lib)
                for sub in packages.get(lib, []):
                    imported.add(sub)
            names, dups = expected(libs)
            from ..refmodel.declarations import table
            bnames = set(table(cfg))
            dups = set(dups) | {n for n in names if n in bnames}
            ok_expected = (not dups) and name in names
            log.emit("cli", cfg=cfg, libs=libs, name=name, code=code if isinstance(code, int) else repr(code),
                     exc=type(err).__name__ if err else None)
            res.probe("command-line tool invoked in the process")
            if err is not None:
                res.violate("C19.error", "C19.error cli-raised-%s" % type(err).__name__, "CLI %r raised %r" % (argv[2:], err))
            elif ok_expected and code not in (0, None):
                res.violate("C19.spurious", "C19.spurious cli-failed",
                            "mpilot %s -l %s on 'X = %s()' failed although %r defines it unambiguously"
                            % (cfg, ",".join(libs), name, names.get(name)))
            elif not ok_expected and code in (0, None) and name not in bnames:
                res.violate("C19.lookup", "C19.lookup cli-foreign-command-visible" if not dups else "C19.dup cli-duplicate-not-rejected",
                            "mpilot %s -l %s accepted 'X = %s()' (requested libraries define: %r, duplicated: %r)"
                            % (cfg, ",".join(libs), name, sorted(names), sorted(dups)))
        elif op[0] == "V2LOAD":
            # the EEMS 2.0 names of the built-in commands resolve to the built-in commands, whatever was loaded before
            try:
                p2 = Program.from_source('READ(InFileName = "x.csv", InFieldName = a)\n'
                                         'MAX(InFieldNames = [a], NewFieldName = m)\n')
                cls2 = type(p2.commands["m"])
                got2 = "%s:%s" % (cls2.__module__, cls2.__name__)
            except Exception as exc:  # noqa
                got2 = "raised %s" % type(exc).__name__
            log.emit("v2load", got=got2)
            res.probe("EEMS 2.0 style file over the built-in libraries")
            if got2 != "mpilot.libraries.eems.basic:Maximum":
                res.violate("C19.lookup", "C19.lookup eems2-name-resolution-changed",
                            "MAX(...) in an EEMS 2.0 style file over the built-in libraries gave %s" % got2)
        elif op[0] == "LOAD":
            libs, name = op[1], op[2]
            names, dups = None, None
            try:
                program = Program.from_source("X = %s()" % name, libraries=tuple(libs))
                program.run()
                tag = program.commands["X"].result
                err = None
            except Exception as exc:  # noqa
                tag, err = None, exc
            for lib in libs:
                note_import(lib)
                for sub in packages.get(lib, []):
                    imported.add(sub)
            names, dups = expected(libs)
            log.emit("load", libs=libs, name=name, ok=err is None, exc=type(err).__name__ if err else None)
            if err is not None:
                if not isinstance(err, MPilotError):
                    res.violate("C19.error", "C19.error load-raised-%s" % type(err).__name__,
                                "loading %s with %r raised %r" % (name, libs, err))
                elif not dups and name in names:
                    res.violate("C19.spurious", "C19.spurious load-failed",
                                "X = %s() with libraries %r failed with %s although %r defines it unambiguously"
                                % (name, libs, type(err).__name__, names[name]))
            else:
                if dups:
                    res.violate("C19.dup", "C19.dup duplicate-not-rejected",
                                "from_source with libraries %r succeeded although %r are defined twice" % (libs, sorted(dups)))
                elif name not in names:
                    res.violate("C19.lookup", "C19.lookup foreign-command-visible %s"
                                % relation(str(tag).split(":")[0], libs),
                                "X = %s() resolved to %r with libraries %r" % (name, tag, libs))
                elif str(tag).split(":")[0] != names[name]:
                    res.violate("C19.lookup", "C19.lookup wrong-implementation %s"
                                % relation(str(tag).split(":")[0], libs),
                                "X = %s() executed %r, expected the one of %r" % (name, tag, names[name]))
                else:
                    res.probe("command resolved to the implementation of the requested library")
        log.emit("op-end", op=op[0])


# ------------------------------------------------------------------------------------------------
def execute(sc):
    scratch = os.environ.get("MPSIM_SCRATCH")
    if not scratch:
        raise HarnessError("MPSIM_SCRATCH not set")
    if any(m == "mpilot" or m.startswith("mpilot.") for m in sys.modules):
        raise HarnessError("the registry engine needs a worker that has not imported mpilot")
    rfd, wfd = os.pipe()
    pid = os.fork()
    if pid == 0:
        code = 0
        try:
            os.close(rfd)
            _child(sc, scratch, wfd)
        except BaseException:
            code = 3
        finally:
            os._exit(code)
    os.close(wfd)
    chunks = []
    with os.fdopen(rfd, "rb") as f:
        head = f.read(8)
        if len(head) == 8:
            n = int.from_bytes(head, "big")
            while n > 0:
                b = f.read(n)
                if not b:
                    break
                chunks.append(b)
                n -= len(b)
    os.waitpid(pid, 0)
    if not chunks:
        raise HarnessError("history process died without a result")
    status, a, b = pickle.loads(b"".join(chunks))
    if status != "ok":
        raise HarnessError("history process failed: %s" % a)
    res = RunResult()
    log = EventLog(cap=10 ** 9)
    log.events = a
    res.log = log
    from ..core import Violation
    res.violations = [Violation(v["inv"], v["sig"], v["detail"]) for v in b["violations"]]
    res.probes, res.faults, res.faults_cfg, res.obs = b["probes"], b["faults"], b["faults_cfg"], b["obs"]
    res.state_keys = b["state_keys"]
    res.case_key = h64([sc["universe"], sc["ops"]])
    res.schedule_key = h64([sc["ops"], sc["perm_seed"]])
    res.nontrivial = sum(1 for op in sc["ops"] if op[0] in ("PROGRAM", "LOAD", "BUILTIN", "CLI")) >= 1 and len(sc["ops"]) >= 2
    return res


def worker_init(scratch):
    # pre-import the heavy third-party modules (never mpilot) so that each forked history starts fast
    import numpy  # noqa
    import six  # noqa
    import ply.lex, ply.yacc  # noqa
    try:
        import netCDF4  # noqa
    except Exception:
        pass


def shrink_candidates(sc):
    def clone():
        return copy.deepcopy(sc)

    for i in range(len(sc["ops"])):
        if len(sc["ops"]) > 1:
            c = clone()
            del c["ops"][i]
            yield c
    for i, op in enumerate(sc["ops"]):
        if op[0] in ("PROGRAM", "LOAD") and len(op[1]) > 1:
            for j in range(len(op[1])):
                c = clone()
                del c["ops"][i][1][j]
                yield c
        if op[0] == "BUILTIN" and op[2]:
            c = clone()
            c["ops"][i][2] = []
            yield c
    used = set()
    for op in sc["ops"]:
        if op[0] in ("IMPORT", "DEFINE"):
            used.add(op[1].split(".")[0])
        elif op[0] in ("PROGRAM", "LOAD"):
            used.update(x.split(".")[0] for x in op[1])
        elif op[0] in ("BUILTIN", "CLI"):
            used.update(op[2])
    for i, spec in enumerate(sc["universe"]):
        if spec["name"] not in used and len(sc["universe"]) > 1:
            c = clone()
            del c["universe"][i]
            yield c
        if len(spec["commands"]) > 1:
            for j in range(len(spec["commands"])):
                c = clone()
                del c["universe"][i]["commands"][j]
                yield c
        sub_used = any(op[0] in ("IMPORT", "DEFINE") and op[1].startswith(spec["name"] + ".") or
                       op[0] == "PROGRAM" and any(x.startswith(spec["name"] + ".") for x in op[1]) for op in sc["ops"])
        if spec["subs"] and not sub_used:
            c = clone()
            c["universe"][i]["subs"] = []
            c["universe"][i]["package"] = False
            yield c
    if sc["perm_seed"] != 0:
        c = clone()
        c["perm_seed"] = 0
        yield c


def sample(sc):
    return {"library_universe": [[s["name"], "package" if s["package"] else "module", s["commands"],
                                  [[x["name"], x["commands"]] for x in s["subs"]]] for s in sc["universe"]],
            "history": sc["ops"], "registry_permutation_seed": sc["perm_seed"]}


RULES = {
    "C19": "Each case = one process history executed in a fresh forked process: a generated universe of 2-4 user "
           "libraries with prefix-related names (lib, lib_x, libx, li, lib2; modules and packages with sub-modules; "
           "colliding and overridden command names) and 3-13 operations (IMPORT by someone else, DEFINE a class later "
           "inside a module, PROGRAM(libraries), LOAD+run a one-command model, built-in CSV/NetCDF configurations with "
           "and without user libraries), under a seeded permutation of the registry's iteration order. Distinct = "
           "distinct hash of (universe, history); non-trivial = at least one lookup operation and two operations.",
}
ASSUMPTIONS = {
    "C19": [
        "reference registry: a command belongs to requested library L iff its defining module is L or starts with "
        "'L.'; classes defined later inside a requested library's module count as part of it",
        "which of several same-named, same-module re-executions stays registered is not judged",
        "a request whose libraries define one name twice must fail at construction with an MPilotError; otherwise the "
        "name -> defining-module map must equal the reference map exactly",
    ],
}
COMPONENTS = {
    "real": ["mpilot.commands.CommandMeta registration", "mpilot.program.Program.__init__ / load_commands / from_source",
             "importlib / pkgutil", "process-global state of a fresh process per history"],
    "stub": ["execute bodies of generated user-library commands", "registry set replaced by a seeded-order set subclass"],
}


STATE_MEASURE = {'C19': 'abstract state = (set of modules imported so far, dynamic definitions, libraries requested); schedule key = (history, registry permutation seed)'}
